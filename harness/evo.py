"""Shared shadow-execution engine for the Evo properties (C01 clone, C02 mutation coherence, C07 checkpoints).

What this file offers (nothing here imports a property driver; it only imports agilerl + torch):

* ``ALGOS``                      the 11 algorithm names.
* ``make_spaces(family, multi)`` tiny observation/action spaces for the space families vector | image | dict | discrete.
* ``net_config_for(kind, family)`` partial and complete ``net_config`` dictionaries (``kind`` in partial|full|none|resnet;
                                 resnet = image observations with encoder_cls="ResNet", algorithms ``RESNET_ALGOS``).
* ``build_agent(spec)``          builds one tiny agent of any algorithm.  ``spec`` is a JSON dict
                                 {"algo","family","share","netcfg","hp","index"}; deterministic given spec["seed"].
* ``make_batch(agent, spec, seed)`` / ``learn(agent, spec, seed)``  one ``learn()`` call on a fresh, seeded batch
                                 (always a fresh batch object: DDPG/TD3 overwrite the action in place;
                                 Rainbow batches have exactly agent.batch_size rows).
* ``greedy(agent, spec, seed)``  deterministic action on a seeded observation (exploration switched off).
* ``unwrap(agent)``              the EvolvableAlgorithm inside an AgentWrapper (or the agent itself).
* ``slots(agent)``               ordered list of *named mutable slots* of an agent:
                                 (name, cls, ptr, fingerprint) where cls is one of
                                   enc / head   parameters of a network attribute (encoder.* / the rest)
                                   henc         encoder tensors held by plain torch layers that are NOT in state_dict
                                                (detached encoder copies made by share_encoder_parameters)
                                   cfg          persistent mutable size lists inside init_dict (hidden_size, channel_size ...)
                                   buf          registered buffers (in state_dict, not in parameters())
                                   ost          optimizer state tensors (per parameter: sorted state keys)
                                   reg          RLParameter objects of registry.hp_config
                                   book         scores / fitness / steps lists
                                   ext          other tensor / ndarray attributes of the algorithm (sigma_inv, theta_0, support ...)
                                 ptr is data_ptr()/id() (never compared across runs, only turned into partitions),
                                 fingerprint is a hash of the value.
                                 Read-only constants (action bounds, Rainbow support, CNN sample_input, expl_noise /
                                 mean_noise) are deliberately not slots.
* ``structure(agent)``           per network attribute / optimizer the slot counts, architecture descriptor,
                                 optimizer <-> parameter identity, lr values, hp values, scalar attributes.
* ``snapshot(pop)``              list of per-agent dicts {"slots": [...], "struct": {...}} plus partitions helpers
                                 ``alias_classes`` / ``value_classes`` (first-occurrence numbering over the population).
* ``registry_of(agent)``         the algorithm's actual registry (groups, optimizers, hooks, hp names) as plain data, and
  ``coq_registry(reg)``          the same as a Coq term of type ``Evo.registry``.
* ``coq_agent(agent, base)``     the agent's structure as a Coq term of type ``Evo.agent`` whose locations are
                                 base, base+1, ... in slot order (so that model and implementation start from
                                 the same separated state).

* ``apply_mutation`` / ``apply_select`` / ``apply_score``  operations of the evolutionary loop on real agents with the
                                 random choices forced (mutation kind) or scripted (tournament draws).
* ``Tables``, ``coq_world``, ``coq_obs``, ``coq_registry``, ``coq_agent``  emission of a case as Coq terms for
                                 ``Evo.world`` / ``EvoCheck.obs`` (see harness/c01.py ``coq_term`` for the op list).

How a property driver uses it (see harness/c01.py): build a population with ``build_agent`` (one shared net_config /
hp_config object), ``registry_plus(pop[0])``, then after every operation ``snapshot(pop)``; emit
``check_run (coq_world first_snapshot) [ops] [coq_obs snapshot ...]`` (coq/theories/Evo/EvoCheck.v).

Slot order (the order of ``slots`` and of ``Evo.agent_locs`` in Coq MUST agree):
  for every network attribute in registry order (eval then its shared nets, group by group):
      enc cells, head cells, henc cells, (const: none), cfg cells, buf cells
  for every optimizer in registry order: ost cells
  reg cells (hp_config order), book cells (scores, fitness, steps), ext cells (sorted by attribute name)
"""
from __future__ import annotations

import copy
import dataclasses
import hashlib
import json
import random
from collections import OrderedDict

import numpy as np
import torch
from gymnasium import spaces
from tensordict import TensorDict

from agilerl.algorithms.core.base import EvolvableAlgorithm
from agilerl.algorithms.core.registry import HyperparameterConfig, RLParameter
from agilerl.algorithms.core.wrappers import OptimizerWrapper

ALGOS = ["DQN", "RainbowDQN", "CQN", "DDPG", "TD3", "PPO", "NeuralUCB", "NeuralTS", "MADDPG", "MATD3", "IPPO"]
MULTI = {"MADDPG", "MATD3", "IPPO"}
CONTINUOUS = {"DDPG", "TD3"}
BANDIT = {"NeuralUCB", "NeuralTS"}
SHARE_CAPABLE = {"DDPG", "TD3", "PPO"}
# algorithms whose networks accept encoder_cls="ResNet" with the engine's image observations (net_config kind "resnet")
RESNET_ALGOS = ["DQN", "CQN", "DDPG", "TD3", "PPO", "IPPO"]
FAMILIES = ["vector", "image", "dict", "discrete"]
AGENT_IDS = ["agent_0", "other_0"]
BATCH = 4


def algo_class(name):
    import importlib
    mod = {"DQN": "dqn", "RainbowDQN": "dqn_rainbow", "CQN": "cqn", "DDPG": "ddpg", "TD3": "td3", "PPO": "ppo",
           "NeuralUCB": "neural_ucb_bandit", "NeuralTS": "neural_ts_bandit", "MADDPG": "maddpg", "MATD3": "matd3",
           "IPPO": "ippo"}[name]
    return getattr(importlib.import_module("agilerl.algorithms." + mod), name)


# ------------------------------------------------------------------------------------------ spaces / configs
def obs_space(family):
    if family == "vector":
        return spaces.Box(-1.0, 1.0, (3,), np.float32)
    if family == "image":
        return spaces.Box(0.0, 1.0, (1, 6, 6), np.float32)
    if family == "dict":
        return spaces.Dict({"a": spaces.Box(-1.0, 1.0, (3,), np.float32), "b": spaces.Box(-1.0, 1.0, (2,), np.float32)})
    if family == "discrete":
        return spaces.Discrete(4)
    raise ValueError(family)


def act_space(algo):
    if algo in CONTINUOUS or algo in ("MADDPG", "MATD3"):
        return spaces.Box(-1.0, 1.0, (2,), np.float32)
    return spaces.Discrete(3)


def net_config_for(kind, family):
    """partial configurations on purpose (R20): only some keys given"""
    if kind == "none":
        return None
    if kind == "resnet":
        # custom encoder selected by alias (image observations only): EvolvableResNet, channel sizes small enough
        # for add_channel / remove_channel / add_block / remove_block to have room in both directions
        assert family == "image", "the ResNet configuration is for image observations"
        return {"encoder_cls": "ResNet",
                "encoder_config": {"input_shape": (1, 6, 6), "channel_size": 8, "kernel_size": 3, "stride_size": 1,
                                   "num_blocks": 1, "min_channel_size": 4, "max_channel_size": 64, "max_blocks": 2}}
    if family == "vector" or family == "discrete":
        enc = {"hidden_size": [6]}
        if kind == "full":
            enc = {"hidden_size": [6, 5], "activation": "ReLU", "output_activation": "ReLU", "min_hidden_layers": 1,
                   "max_hidden_layers": 3, "min_mlp_nodes": 4, "max_mlp_nodes": 16}
    elif family == "image":
        enc = {"channel_size": [2], "kernel_size": [3], "stride_size": [1]}
        if kind == "full":
            enc = {"channel_size": [2], "kernel_size": [3], "stride_size": [1], "activation": "ReLU",
                   "min_channel_size": 1, "max_channel_size": 4}
    elif family == "dict":
        enc = {"latent_dim": 8, "init_dicts": {}}
        if kind == "full":
            enc = {"latent_dim": 8, "init_dicts": {}, "vector_space_mlp": False}
        enc = {k: v for k, v in enc.items() if k != "init_dicts"}
    cfg = {"encoder_config": enc}
    if kind == "full":
        cfg["head_config"] = {"hidden_size": [16]}
        cfg["latent_dim"] = 8
    return cfg


HP_BY_ALGO = {
    "DDPG": ("lr_actor", "lr_critic"), "TD3": ("lr_actor", "lr_critic"),
    "MADDPG": ("lr_actor", "lr_critic"), "MATD3": ("lr_actor", "lr_critic"),
}


def hp_config_for(algo):
    lrs = HP_BY_ALGO.get(algo, ("lr",))
    d = {n: RLParameter(min=1e-5, max=1e-1) for n in lrs}
    d["batch_size"] = RLParameter(min=2, max=8, dtype=int)
    if algo not in ("PPO", "IPPO"):
        d["learn_step"] = RLParameter(min=1, max=8, dtype=int, grow_factor=1.5, shrink_factor=0.75)
    return HyperparameterConfig(**d)


# module-level default configurations that the implementation mutates in place (known finding C01
# faithful@dict:*:arch): restored before every case so that a case behaves as it would in a fresh process
_GLOBAL_DEFAULTS = None


def reset_globals():
    global _GLOBAL_DEFAULTS
    import agilerl.modules.multi_input as mi
    names = [n for n in ("DefaultCnnConfig", "DefaultMlpConfig", "DefaultLstmConfig") if hasattr(mi, n)]
    if _GLOBAL_DEFAULTS is None:
        _GLOBAL_DEFAULTS = {n: copy.deepcopy(getattr(mi, n)) for n in names}
    for n in names:
        live, saved = getattr(mi, n), _GLOBAL_DEFAULTS[n]
        if hasattr(live, "__dict__"):
            live.__dict__.update(copy.deepcopy(saved.__dict__))


def seed_all(seed):
    random.seed(seed)
    np.random.seed(seed % (2 ** 32))
    torch.manual_seed(seed)


def build_agent(spec, shared_cfg=None):
    """spec: {"algo","family","share","netcfg","hp","index","seed"}.  shared_cfg: an already built net_config
    dict to pass (population built from ONE user config, as EvolvableAlgorithm.population does)."""
    algo, family = spec["algo"], spec.get("family", "vector")
    cls = algo_class(algo)
    seed_all(spec.get("seed", 0) * 1009 + spec.get("index", 0))
    custom = spec.get("netcfg") == "custom"
    ncfg = None if custom else (shared_cfg if shared_cfg is not None else net_config_for(spec.get("netcfg", "partial"), family))
    kw = dict(index=spec.get("index", 0), net_config=ncfg, batch_size=BATCH)
    if custom:
        kw.update(custom_networks(algo, family))
    if spec.get("hp", True):
        kw["hp_config"] = spec.get("_hp_obj") or hp_config_for(algo)
    if algo in SHARE_CAPABLE:
        kw["share_encoders"] = bool(spec.get("share", False))
    if algo in ("PPO", "IPPO"):
        kw["update_epochs"] = 1
        kw["learn_step"] = BATCH
    if algo == "RainbowDQN":
        kw.update(num_atoms=5, v_min=-2.0, v_max=2.0)
    if algo in MULTI:
        ids = list(reversed(AGENT_IDS)) if spec.get("ids") == "rev" else list(AGENT_IDS)   # caller-chosen (unsorted) order
        osp = [obs_space(family) for _ in ids]
        asp = [act_space(algo) for _ in ids]
        if spec.get("hetero") and family == "vector":     # non-uniform shapes: the second agent observes 5 numbers, not 3
            osp[1] = spaces.Box(-1.0, 1.0, (5,), np.float32)
        return cls(osp, asp, agent_ids=ids, **kw)
    return cls(obs_space(family), act_space(algo), **kw)


# net_config kind "custom": plain torch networks wrapped by MakeEvolvable and passed as actor_network= / critic_network=
# (agilerl/wrappers/make_evolvable.py keeps its constructor kwargs -- hidden_size, channel_size, layer-info dicts -- as
# attributes and hands them out again through init_dict)
CUSTOM_ALGOS = {"DQN": ("vector", "image"), "CQN": ("vector", "image"), "NeuralUCB": ("vector",)}


def custom_networks(algo, family):
    import torch.nn as nn
    from agilerl.wrappers.make_evolvable import MakeEvolvable
    assert family in CUSTOM_ALGOS.get(algo, ()), f"no custom-network configuration for {algo}/{family}"
    lim = dict(min_hidden_layers=1, max_hidden_layers=3, min_mlp_nodes=4, max_mlp_nodes=64,
               min_cnn_hidden_layers=1, max_cnn_hidden_layers=3, min_channel_size=2, max_channel_size=16)
    nout = 2 if algo == "DDPG" else (1 if algo in BANDIT else 3)
    if family == "image":
        net = nn.Sequential(nn.Conv2d(1, 4, kernel_size=3, stride=1), nn.ReLU(), nn.Flatten(),
                            nn.Linear(4 * 4 * 4, 8), nn.ReLU(), nn.Linear(8, nout))
        actor = MakeEvolvable(net, torch.zeros(1, 1, 6, 6), **lim)
    else:
        net = nn.Sequential(nn.Linear(3, 8), nn.ReLU(), nn.Linear(8, 6), nn.ReLU(), nn.Linear(6, nout),
                            *([nn.Tanh()] if algo == "DDPG" else []))
        actor = MakeEvolvable(net, torch.zeros(1, 3), **lim)
    out = {"actor_network": actor}
    if algo == "DDPG":
        class _Critic(nn.Module):
            def __init__(self):
                super().__init__()
                self.l1, self.a1, self.l2 = nn.Linear(3 + 2, 8), nn.ReLU(), nn.Linear(8, 1)

            def forward(self, x, a):
                return self.l2(self.a1(self.l1(torch.cat([x, a], dim=1))))
        out["critic_network"] = MakeEvolvable(_Critic(), torch.zeros(1, 3), secondary_input_tensor=torch.zeros(1, 2), **lim)
    return out


def unwrap(agent):
    return agent.agent if hasattr(agent, "agent") and isinstance(getattr(agent, "agent"), EvolvableAlgorithm) else agent


# ------------------------------------------------------------------------------------------ batches, learn, greedy
def rand_obs(space, n, g):
    if isinstance(space, spaces.Dict):
        return {k: rand_obs(s, n, g) for k, s in space.spaces.items()}
    if isinstance(space, spaces.Discrete):
        return torch.randint(0, space.n, (n,), generator=g).float()
    return torch.rand((n,) + tuple(space.shape), generator=g) * 0.5


def make_batch(agent, spec, seed):
    a = unwrap(agent)
    algo, family = spec["algo"], spec.get("family", "vector")
    g = torch.Generator().manual_seed(int(seed) + 12345)
    n = int(a.batch_size)
    if algo in ("DQN", "RainbowDQN", "CQN", "DDPG", "TD3"):
        os_ = a.observation_space
        if algo in CONTINUOUS:
            act = torch.rand((n, 2), generator=g) * 2 - 1
        else:
            act = torch.randint(0, 3, (n, 1), generator=g)
        d = {"obs": rand_obs(os_, n, g), "action": act, "reward": torch.rand((n, 1), generator=g),
             "next_obs": rand_obs(os_, n, g), "done": torch.randint(0, 2, (n, 1), generator=g).float()}
        for k in ("obs", "next_obs"):
            if isinstance(d[k], dict):
                d[k] = TensorDict(d[k], batch_size=[n])
        return TensorDict(d, batch_size=[n])
    if algo in BANDIT:
        os_ = a.observation_space
        return TensorDict({"obs": rand_obs(os_, n, g), "reward": torch.rand((n, 1), generator=g)}, batch_size=[n])
    if algo == "PPO":
        T = n + 1
        os_ = a.observation_space
        return [rand_obs(os_, T, g), torch.randint(0, 3, (T,), generator=g).float(), torch.randn(T, generator=g) * 0.1,
                torch.rand(T, generator=g), torch.randint(0, 2, (T,), generator=g), torch.randn(T, generator=g) * 0.1,
                rand_obs(os_, 1, g), np.zeros(1)]
    if algo in ("MADDPG", "MATD3"):
        ids = a.agent_ids
        st = {i: rand_obs(a.observation_spaces[k], n, g) for k, i in enumerate(ids)}
        ns = {i: rand_obs(a.observation_spaces[k], n, g) for k, i in enumerate(ids)}
        if family == "discrete":
            st = {i: v.reshape(n, 1) for i, v in st.items()}
            ns = {i: v.reshape(n, 1) for i, v in ns.items()}
        ac = {i: torch.rand((n, 2), generator=g) * 2 - 1 for i in ids}
        rw = {i: torch.rand((n, 1), generator=g) for i in ids}
        dn = {i: torch.randint(0, 2, (n, 1), generator=g) for i in ids}
        return (st, ac, rw, ns, dn)
    if algo == "IPPO":
        ids = a.agent_ids
        T = n + 1

        def npo(space, m):
            o = rand_obs(space, m, g)
            if isinstance(o, dict):
                return {k: v.numpy() for k, v in o.items()}
            o = o.numpy()
            return o.reshape(m, 1) if family == "discrete" else o
        st = {i: npo(a.observation_spaces[k], T) for k, i in enumerate(ids)}
        ac = {i: torch.randint(0, 3, (T, 1), generator=g).numpy() for i in ids}
        lp = {i: (torch.randn((T, 1), generator=g) * 0.1).numpy() for i in ids}
        rw = {i: torch.rand(T, generator=g).numpy() for i in ids}
        dn = {i: torch.randint(0, 2, (T,), generator=g).numpy() for i in ids}
        va = {i: (torch.randn((T, 1), generator=g) * 0.1).numpy() for i in ids}

        def one(space):
            o = rand_obs(space, 1, g)
            if isinstance(o, dict):
                return {k: v.numpy()[0] for k, v in o.items()}
            o = o.numpy()
            return o.reshape(1) if family == "discrete" else o[0]
        nst = {i: one(a.observation_spaces[k]) for k, i in enumerate(ids)}
        nd = {i: np.zeros(1) for i in ids}
        return (st, ac, lp, rw, dn, va, nst, nd)
    raise ValueError(algo)


def clone_batch(b):
    if isinstance(b, TensorDict):
        return b.clone()
    return copy.deepcopy(b)


def learn(agent, spec, seed):
    """one learn() call with a seeded batch and a seeded torch RNG; returns a float-ish summary of the result"""
    b = make_batch(agent, spec, seed)
    seed_all(int(seed) + 777)
    out = agent.learn(clone_batch(b))
    return _summ(out)


def _summ(out):
    if isinstance(out, dict):
        return {str(k): _summ(v) for k, v in out.items()}
    if isinstance(out, (tuple, list)):
        return [_summ(x) for x in out]
    if out is None:
        return None
    try:
        return float(out)
    except Exception:
        return str(type(out).__name__)


def greedy(agent, spec, seed):
    a = unwrap(agent)
    algo, family = spec["algo"], spec.get("family", "vector")
    g = torch.Generator().manual_seed(int(seed) + 999)

    def npobs(space, n):
        o = rand_obs(space, n, g)
        if isinstance(o, dict):
            return {k: v.numpy() for k, v in o.items()}
        return o.numpy()
    seed_all(int(seed) + 31)
    was = a.training
    try:
        if algo in ("DQN", "CQN"):
            out = agent.get_action(npobs(a.observation_space, 2), epsilon=0.0)
        elif algo == "RainbowDQN":
            out = agent.get_action(npobs(a.observation_space, 2), training=False)
        elif algo in CONTINUOUS:
            a.set_training_mode(False)
            out = agent.get_action(npobs(a.observation_space, 2))
        elif algo == "PPO":
            out = agent.get_action(npobs(a.observation_space, 2))
        elif algo in BANDIT:
            ctx = npobs(a.observation_space, 3)
            out = agent.get_action(ctx)
        elif algo in ("MADDPG", "MATD3"):
            a.set_training_mode(False)
            obs = {i: npobs(a.observation_spaces[k], 1) for k, i in enumerate(a.agent_ids)}
            out = agent.get_action(obs)
        elif algo == "IPPO":
            obs = {i: npobs(a.observation_spaces[k], 1) for k, i in enumerate(a.agent_ids)}
            out = agent.get_action(obs)
        else:
            raise ValueError(algo)
    finally:
        a.set_training_mode(was)
    return _arr(out)


def _arr(o):
    if isinstance(o, dict):
        return {str(k): _arr(v) for k, v in o.items()}
    if isinstance(o, (tuple, list)):
        return [_arr(x) for x in o]
    if o is None:
        return None
    if isinstance(o, torch.Tensor):
        o = o.detach().cpu().numpy()
    return np.asarray(o, dtype=np.float64).round(10).tolist()


# ------------------------------------------------------------------------------------------ slots
def _fp_tensor(t):
    t = t.detach().cpu().contiguous()
    return hashlib.sha1(str(tuple(t.shape)).encode() + str(t.dtype).encode() + t.numpy().tobytes()).hexdigest()[:16]


def _fp_obj(o):
    return hashlib.sha1(repr(o).encode()).hexdigest()[:16]


def _modules_of(obj):
    return list(obj) if isinstance(obj, (list, tuple)) else [obj]


def _is_enc(key):
    return key.startswith("encoder.") or ".encoder." in key


def _net_slots(prefix, obj):
    """slots of one network attribute (a module or a list of modules)"""
    enc, head, hid, cfg, buf = [], [], [], [], []
    for mi, m in enumerate(_modules_of(obj)):
        m = getattr(m, "_orig_mod", m)
        tag = f"{prefix}[{mi}]" if isinstance(obj, (list, tuple)) else prefix
        sd = m.state_dict(keep_vars=True)
        pnames = {k for k, _ in m.named_parameters()}
        seen = set()
        for k, t in sd.items():
            if t.numel() == 0:
                continue
            seen.add(id(t))
            if k not in pnames:
                buf.append((f"{tag}.{k}", t))       # registered buffer: in state_dict, not in parameters()
            else:
                (enc if _is_enc(k) else head).append((f"{tag}.{k}", t))
        # tensors held by the module tree that are not in state_dict (detached copies, plain attributes)
        from agilerl.modules.base import EvolvableModule as _EM
        for mn, sub in m.named_modules():
            if isinstance(sub, _EM):
                continue      # plain tensor attributes of evolvable modules are constants (e.g. EvolvableCNN.sample_input)
            cand = list(sub.__dict__.items()) + list(sub._parameters.items()) + list(sub._buffers.items())
            for an, v in cand:
                if isinstance(v, torch.Tensor) and id(v) not in seen and v.numel() > 0:
                    seen.add(id(v))
                    hid.append((f"{tag}.{mn + '.' if mn else ''}{an}", v))
        # only list objects that persist between two reads of init_dict are mutable state of the network (a list that
        # is re-created on every read cannot be shared; its id() may even be recycled)
        first, second = m.init_dict, m.init_dict          # both kept alive while they are compared
        wd = type(m).__name__ == "MakeEvolvable"
        again = dict(_cfg_lists(second, dicts=wd))
        for path, lst in _cfg_lists(first, dicts=wd):
            if again.get(path) is lst:
                cfg.append((f"{tag}.init_dict.{path}", lst))
    return enc, head, hid, cfg, buf


def _cfg_lists(d, path="", dicts=False):
    """mutable containers reachable from an init dict: lists, and (dicts=True: MakeEvolvable, whose init dict hands out
    its own layer-info dictionaries) the nested dictionaries themselves"""
    out = []
    if isinstance(d, dict):
        if dicts and path:
            out.append((path.rstrip(".") + "{}", d))
        for k in d:
            out += _cfg_lists(d[k], f"{path}{k}.", dicts)
    elif isinstance(d, list):
        out.append((path.rstrip("."), d))
    return out


def net_names(a):
    """network attributes in registry order: eval, then its shared networks, group by group"""
    names = []
    for grp in a.registry.groups:
        names.append(grp.eval)
        sh = grp.shared
        if sh is None:
            continue
        for s in (sh if isinstance(sh, list) else [sh]):
            for x in (s if isinstance(s, list) else [s]):
                names.append(x)
    return names


def _opt_list(w):
    return list(w.optimizer) if isinstance(w.optimizer, list) else [w.optimizer]


# expl_noise / mean_noise: read-only configuration arrays of DDPG/TD3/MADDPG/MATD3 (never written in place)
# net_config: the caller's configuration dictionary (multi-agent image networks store a read-only sample_input tensor in it)
EXT_SKIP = {"observation_space", "action_space", "observation_spaces", "action_spaces", "expl_noise", "mean_noise", "net_config"}


def slots(agent):
    a = unwrap(agent)
    out = []
    for n in net_names(a):
        enc, head, hid, cfg, buf = _net_slots(n, getattr(a, n))
        henc = [x for x in hid if _is_enc(x[0])]
        # constants rebuilt by the constructor (action bounds, Rainbow support) are read-only and are aliased or not
        # depending on how the network object was made (deepcopy vs constructor): they are not slots
        const = []
        for cls, items in (("enc", enc), ("head", head), ("henc", henc), ("const", const)):
            for name, t in items:
                out.append((name, cls, ("T", t.data_ptr()), _fp_tensor(t)))
        for name, lst in cfg:
            out.append((name, "cfg", ("O", id(lst)), _fp_obj(lst)))
        for name, t in buf:
            out.append((name, "buf", ("T", t.data_ptr()), _fp_tensor(t)))
    for oc in a.registry.optimizers:
        w = getattr(a, oc.name)
        for oi, o in enumerate(_opt_list(w)):
            pi = 0
            for gr in o.param_groups:
                for p in gr["params"]:
                    st = o.state.get(p, {})
                    for k in sorted(st):
                        v = st[k]
                        if isinstance(v, torch.Tensor):
                            out.append((f"{oc.name}[{oi}].state[{pi}].{k}", "ost", ("T", v.data_ptr()), _fp_tensor(v)))
                    pi += 1
    hc = a.registry.hp_config
    for n in (hc.names() if hc else []):
        r = hc[n]
        out.append((f"registry.hp.{n}", "reg", ("O", id(r)), _fp_obj((r.min, r.max, r.shrink_factor, r.grow_factor, str(r.dtype), r.value))))
    for n in ("scores", "fitness", "steps"):
        v = getattr(a, n)
        out.append((n, "book", ("O", id(v)), _fp_obj(v)))
    # every other list attribute holding plain values (bandit regret, agent id lists, user-added lists ...) is a mutable
    # bookkeeping object as well
    for n, v in sorted(vars(a).items()):
        if n in ("scores", "fitness", "steps") or n in PLAIN_IGNORE or not isinstance(v, list):
            continue
        if _plain(v)[0]:
            out.append((n, "book", ("O", id(v)), _fp_obj(v)))
    attrs = EvolvableAlgorithm.inspect_attributes(a)
    # a constant / ext tensor that is the same storage as an earlier slot of this agent is the same cell: listed once
    seen_ptr, dedup = set(), []
    for s_ in out:
        if s_[1] in ("const", "ext") and s_[2] in seen_ptr:
            continue
        seen_ptr.add(s_[2])
        dedup.append(s_)
    out = dedup
    for n in sorted(attrs):
        v = attrs[n]
        if n in EXT_SKIP or n in ("scores", "fitness", "steps"):
            continue
        if isinstance(v, torch.Tensor) and v.numel() > 0:
            if ("T", v.data_ptr()) in seen_ptr:
                continue
            seen_ptr.add(("T", v.data_ptr()))
            out.append((f"attr.{n}", "ext", ("T", v.data_ptr()), _fp_tensor(v)))
        elif isinstance(v, np.ndarray) and v.size > 0:
            out.append((f"attr.{n}", "ext", ("A", v.__array_interface__["data"][0]), _fp_obj(v.tolist())))
        elif isinstance(v, (list, tuple, dict)) and not _plain(v)[0]:
            # container-valued attribute (MADDPG / MATD3 keep their OU-noise state in LISTS of tensors): walk down to the
            # mutable leaves -- each tensor / ndarray element is a cell of its own
            _walk_leaves(f"attr.{n}", v, 0, out, seen_ptr)
    return out


def _walk_leaves(name, v, depth, out, seen_ptr):
    if isinstance(v, torch.Tensor):
        p = ("T", v.data_ptr())
        if v.numel() > 0 and p not in seen_ptr:
            seen_ptr.add(p)
            out.append((name, "ext", p, _fp_tensor(v)))
    elif isinstance(v, np.ndarray):
        p = ("A", v.__array_interface__["data"][0])
        if v.size > 0 and v.dtype != object and p not in seen_ptr:
            seen_ptr.add(p)
            out.append((name, "ext", p, _fp_obj(v.tolist())))
    elif depth >= 3 or isinstance(v, (torch.nn.Module, spaces.Space, OptimizerWrapper, torch.optim.Optimizer)):
        return
    elif isinstance(v, dict):
        for k, x in sorted(v.items(), key=lambda kv: str(kv[0])):
            _walk_leaves(f"{name}.{k}", x, depth + 1, out, seen_ptr)
    elif isinstance(v, (list, tuple)):
        for k, x in enumerate(v):
            _walk_leaves(f"{name}[{k}]", x, depth + 1, out, seen_ptr)


def wrapper_slots(agent):
    """extra slots of an AgentWrapper: every tensor reachable from the wrapper's own attributes through objects, dicts,
    tuples and lists (RSNorm running statistics: one RunningMeanStd, or a dict / tuple of them for Dict / Tuple spaces)"""
    out = []
    if unwrap(agent) is agent:
        return out

    def walk(name, v, depth):
        if isinstance(v, torch.Tensor):
            if v.numel() > 0:
                out.append((name, "ext", ("T", v.data_ptr()), _fp_tensor(v)))
        elif depth > 3 or callable(v) or isinstance(v, (EvolvableAlgorithm, spaces.Space, torch.nn.Module)):
            return
        elif isinstance(v, dict):
            for k, x in sorted(v.items(), key=lambda kv: str(kv[0])):
                walk(f"{name}.{k}", x, depth + 1)
        elif isinstance(v, (list, tuple)):
            for k, x in enumerate(v):
                walk(f"{name}[{k}]", x, depth + 1)
        elif hasattr(v, "__dict__"):
            for k, x in sorted(vars(v).items()):
                walk(f"{name}.{k}", x, depth + 1)
    for n, v in sorted(vars(agent).items()):
        walk(f"wrapper.{n}", v, 0)
    return out


def all_slots(agent):
    return slots(agent) + wrapper_slots(agent)


# ------------------------------------------------------------------------------------------ structure
def _descr(m):
    m = getattr(m, "_orig_mod", m)

    def clean(d):
        if isinstance(d, dict):
            return {str(k): clean(v) for k, v in sorted(d.items(), key=lambda kv: str(kv[0])) if k != "device"}
        if isinstance(d, (list, tuple)):
            return [clean(x) for x in d]
        if isinstance(d, (int, float, str, bool)) or d is None:
            return d
        if isinstance(d, (np.integer,)):
            return int(d)
        if isinstance(d, (np.floating,)):
            return float(d)
        if dataclasses.is_dataclass(d) and not isinstance(d, type):
            return {"__cls__": type(d).__name__, **clean(dataclasses.asdict(d))}
        return type(d).__name__ + ":" + str(d)
    desc = clean(m.init_dict)
    _normalise_multi_agent_block_type(desc)
    return json.dumps([type(m).__name__, desc], sort_keys=True)


def _normalise_multi_agent_block_type(desc):
    """Multi-agent networks over Dict/Tuple observations: EvolvableNetwork.modify_multi_agent_config sets
    encoder_config["cnn_config"]["block_type"] = "Conv3d" whenever a cnn_config is present, i.e. on EVERY rebuild from an
    init dict, whereas a network first built from a configuration without cnn_config carries the default "Conv2d" in
    its (then unused or immediately overridden) sub-configuration.  The two describe the same architecture: a
    multi-agent network never builds a 2-d CNN for a Dict/Tuple sub-space (MADDPG/MATD3 even require an explicit
    cnn_config when there is an image sub-space).  The descriptor therefore reports the effective value."""
    if not isinstance(desc, dict) or desc.get("n_agents") is None:
        return
    enc = desc.get("encoder_config")
    if isinstance(enc, dict) and isinstance(enc.get("cnn_config"), dict) and "block_type" in enc["cnn_config"]:
        enc["cnn_config"]["block_type"] = "Conv3d"


def arch_descr(a, n):
    return json.dumps([_descr(m) for m in _modules_of(getattr(a, n))])


def structure(agent):
    a = unwrap(agent)
    nets = OrderedDict()
    for n in net_names(a):
        enc, head, hid, cfg, buf = _net_slots(n, getattr(a, n))
        params = [p for m in _modules_of(getattr(a, n)) for p in getattr(m, "_orig_mod", m).parameters()]
        nhenc = sum(1 for x in hid if _is_enc(x[0]))
        nets[n] = {"enc": len(enc), "head": len(head), "henc": nhenc, "const": 0, "cfg": len(cfg), "buf": len(buf),
                   "arch": arch_descr(a, n), "param_ids": [id(p) for p in params]}
    opts = OrderedDict()
    for oc in a.registry.optimizers:
        w = getattr(a, oc.name)
        refs, lrs, nstate, ref_ptrs = [], [], 0, []
        for o in _opt_list(w):
            for gr in o.param_groups:
                lrs.append(float(gr["lr"]))
                for p in gr["params"]:
                    refs.append(id(p))
                    if p.numel() > 0:
                        ref_ptrs.append(p.data_ptr())
                    nstate += sum(1 for v in o.state.get(p, {}).values() if isinstance(v, torch.Tensor))
        want = []
        for nn_ in oc.networks:
            want += nets[nn_]["param_ids"] if nn_ in nets else []
        opts[oc.name] = {"nets": list(oc.networks), "lr_name": oc.lr, "lrs": lrs, "wrapper_lr": float(w.lr),
                         "attr_lr": float(getattr(a, oc.lr)), "nstate": nstate, "refs_ok": refs == want,
                         "nrefs": len(refs), "ref_ptrs": ref_ptrs}
    hc = a.registry.hp_config
    hp_names = list(hc.names() if hc else [])
    for oc in a.registry.optimizers:
        if oc.lr not in hp_names:
            hp_names.append(oc.lr)
    hps = OrderedDict((n, getattr(a, n)) for n in hp_names)
    for n in list(hps):
        v = hps[n]
        hps[n] = float(v) if isinstance(v, (int, float, np.integer, np.floating)) else str(v)
    scalars = plain_state(a)
    if unwrap(agent) is not agent:
        scalars.update({"wrapper." + k: v for k, v in plain_state(agent).items()})
    return {"nets": nets, "opts": opts, "hps": hps, "scalars": scalars, "index": int(a.index), "mut": a.mut if a.mut is None else str(a.mut),
            "books": {n: _jsonable(getattr(a, n)) for n in ("scores", "fitness", "steps")}}


# plain (non-tensor, non-module) state of an agent.  Derived generically: EVERY attribute of the instance dictionary --
# underscore-named ones included, copy_attributes skips those -- and every public attribute reported by
# inspect_attributes whose value is a number / bool / string / None or a small container of such values.
# Ignored (documented): identity and bookkeeping that legitimately differ or are slots already (index, mut, training,
# scores/fitness/steps, registry), the wrapped agent / bound methods of wrappers, spaces and devices.
PLAIN_IGNORE = {"_index", "index", "_mut", "mut", "training", "scores", "fitness", "steps", "registry", "agent",
                "device", "accelerator", "observation_space", "action_space", "observation_spaces", "action_spaces",
                "possible_observation_spaces", "possible_action_spaces", "net_config", "torch_compiler"}


def _plain(v, depth=0):
    if isinstance(v, (bool, str)) or v is None:
        return True, v
    if isinstance(v, (int, float, np.integer, np.floating)):
        return True, float(v)
    if depth < 2 and isinstance(v, (list, tuple)) and len(v) <= 16:
        r = [_plain(x, depth + 1) for x in v]
        if all(ok for ok, _ in r):
            return True, [x for _, x in r]
    if depth < 2 and isinstance(v, dict) and len(v) <= 16:
        r = {str(k): _plain(x, depth + 1) for k, x in v.items()}
        if all(ok for ok, _ in r.values()):
            return True, {k: x for k, (_, x) in sorted(r.items())}
    return False, None


def plain_state(obj):
    out = {}
    items = dict(vars(obj))
    if isinstance(obj, EvolvableAlgorithm):
        for n, v in EvolvableAlgorithm.inspect_attributes(obj).items():
            items.setdefault(n, v)
    for n, v in sorted(items.items()):
        if n in PLAIN_IGNORE or callable(v):
            continue
        ok, val = _plain(v)
        if ok:
            out[n] = val
    return out


def extras(agent):
    """further observations used by C01 only (kept out of structure() so that other drivers are unaffected):
       tree    per network attribute, the (sub-module name, class name) list of the module tree -- a rebuilt network must
               have the same classes (activation / normalisation layers do not show in a state dict);
       types   Python / numpy type name of every plain attribute (an int that comes back as a float is not the same);
       grads   data pointers of the .grad tensors currently held by the agent's parameters."""
    a = unwrap(agent)
    tree, grads = {}, []
    for n in net_names(a):
        sig = []
        for m in _modules_of(getattr(a, n)):
            m = getattr(m, "_orig_mod", m)
            sig.append([[mn, type(sub).__name__] for mn, sub in m.named_modules()])
            for p_ in m.parameters():
                if p_.grad is not None and p_.grad.numel() > 0:
                    grads.append(p_.grad.data_ptr())
        tree[n] = hashlib.sha1(json.dumps(sig).encode()).hexdigest()[:12]
    items = dict(vars(a))
    for k, v in EvolvableAlgorithm.inspect_attributes(a).items():
        items.setdefault(k, v)
    types = {k: type(v).__name__ for k, v in sorted(items.items())
             if k not in PLAIN_IGNORE and not callable(v) and _plain(v)[0] and not isinstance(v, (list, tuple, dict))}
    return {"tree": tree, "types": types, "grads": grads}


def poke(agent, seed):
    """extreme but legal magnitudes written into the first weight of every network and into the ext tensors: huge, tiny,
    negative zero, infinities and NaN -- a copy must reproduce them bit for bit"""
    a = unwrap(agent)
    vals = [1e30, -1e30, 1e-42, -0.0, float("inf"), float("-inf"), float("nan"), 3.0000002]
    with torch.no_grad():
        for n in net_names(a):
            for m in _modules_of(getattr(a, n)):
                ps = [p_ for p_ in getattr(m, "_orig_mod", m).parameters() if p_.numel() >= 2]
                if ps:
                    flat = ps[-1].view(-1)      # last parameter tensor (an output bias): keeps forward passes finite enough
                    for k in range(min(flat.numel(), 2)):
                        flat[k] = vals[(int(seed) + k) % 4]
        for name, cls, ptr, fp in slots(a):
            pass
        for k, v in sorted(vars(a).items()):
            if isinstance(v, torch.Tensor) and v.is_floating_point() and v.numel() >= 2 and not v.requires_grad:
                v.view(-1)[0] = vals[(int(seed) + 4) % 8]
                v.view(-1)[1] = vals[(int(seed) + 6) % 8]


def _jsonable(v):
    return [float(x) if isinstance(x, (int, float, np.integer, np.floating)) else str(x) for x in v]


def registry_of(agent):
    a = unwrap(agent)
    groups = []
    for g_ in a.registry.groups:
        sh = g_.shared
        shl = []
        if sh is not None:
            for s in (sh if isinstance(sh, list) else [sh]):
                shl += (s if isinstance(s, list) else [s])
        groups.append({"eval": g_.eval, "shared": shl, "policy": bool(g_.policy), "multiagent": bool(g_.multiagent)})
    opts = [{"name": o.name, "nets": list(o.networks), "lr": o.lr, "multiagent": bool(o.multiagent)} for o in a.registry.optimizers]
    hc = a.registry.hp_config
    return {"groups": groups, "opts": opts, "hooks": list(a.registry.hooks), "hps": list(hc.names()) if hc else []}


# ------------------------------------------------------------------------------------------ partitions
def classes(values):
    """first-occurrence numbering: [x,y,x,z] -> [0,1,0,2]"""
    seen, out = {}, []
    for v in values:
        if v not in seen:
            seen[v] = len(seen)
        out.append(seen[v])
    return out


def snapshot(pop):
    """per agent: slots (name, cls, ptr, fp) and structure"""
    return [{"slots": all_slots(ag), "struct": structure(ag)} for ag in pop]


# ------------------------------------------------------------------------------------------ operations on real populations
MUT_KINDS = ["none", "arch", "param", "act", "hp"]


def apply_mutation(agent, kind, seed):
    """Mutations.mutation on ONE individual with the mutation kind forced (probability 1 on that kind).
    Returns the (possibly new) individual."""
    from agilerl.hpo.mutation import Mutations
    p = {k: 0 for k in MUT_KINDS}
    p[kind] = 1
    m = Mutations(no_mutation=p["none"], architecture=p["arch"], new_layer_prob=0.3, parameters=p["param"],
                  activation=p["act"], rl_hp=p["hp"], mutation_sd=0.1, rand_seed=int(seed) % 100000, device="cpu")
    seed_all(int(seed) + 4242)
    out = m.mutation([agent], pre_training_mut=False)
    return out[0]


_TS_CACHE = {}


def apply_select(pop, draws, elitism=True, tournament_size=2):
    """TournamentSelection.select with scripted tournaments: tournament k draws index draws[k] tournament_size
    times, so its winner is draws[k] whatever the ranking; the agents' last fitness (distinct values) decides the elite.
    Returns (new population + [elite], elite index in the old population)."""
    import agilerl.hpo.tournament as T
    # one helper object per configuration, reused on every population of the process (state must not persist in it)
    key = (tournament_size, elitism, len(draws) + (1 if elitism else 0))
    ts = _TS_CACHE.get(key)
    if ts is None:
        ts = _TS_CACHE[key] = T.TournamentSelection(tournament_size, elitism, len(draws) + (1 if elitism else 0), 1)
    it = iter(draws)
    orig = np.random.randint

    def fake(lo, hi=None, size=None, **kw):
        d = next(it)
        return np.array([d] * int(size), dtype=np.int64)
    np.random.randint = fake
    try:
        elite, new_pop = ts.select(pop)
    finally:
        np.random.randint = orig
    best = max(range(len(pop)), key=lambda i: np.mean(unwrap(pop[i]).fitness[-1:]))
    return list(new_pop) + [elite], best


OU_ALGOS = {"DDPG", "TD3", "MADDPG", "MATD3"}


def explore(agent, spec, seed):
    """get_action in TRAINING mode (exploration noise is drawn and, with O_U_noise=True, the OU state advances)"""
    a = unwrap(agent)
    algo = spec["algo"]
    g = torch.Generator().manual_seed(int(seed) + 555)
    seed_all(int(seed) + 37)
    a.set_training_mode(True)

    def npobs(space, n):
        o = rand_obs(space, n, g)
        return {k: v.numpy() for k, v in o.items()} if isinstance(o, dict) else o.numpy()
    if algo in ("MADDPG", "MATD3"):
        obs = {i: npobs(a.observation_spaces[k], 1) for k, i in enumerate(a.agent_ids)}
    else:
        obs = npobs(a.observation_space, 1)
    return _arr(agent.get_action(obs))


def reset_noise(agent):
    """reset_action_noise([0]): zeroes row 0 of every OU-noise state IN PLACE"""
    unwrap(agent).reset_action_noise([0])


def apply_tags(agent, i):
    """attributes a user adds to an agent after construction: copy_attributes must deep-copy them onto a clone although
    the freshly constructed clone does not have them (its last branch)"""
    a = unwrap(agent)
    a.user_list = [i, i + 1]
    a.user_arr = np.arange(3.0) + i
    a.user_t = torch.ones(2) * (i + 1)
    a.user_num = 7 + i


def apply_score(agent, x):
    a = unwrap(agent)
    a.scores.append(float(x))
    a.fitness.append(float(x))
    a.steps[-1] += 5
    a.steps.append(a.steps[-1])


# ------------------------------------------------------------------------------------------ Coq emission
CLS_ID = {"enc": 0, "head": 1, "henc": 2, "const": 3, "cfg": 4, "ost": 5, "reg": 6, "book": 7, "ext": 8, "buf": 9}
ACT_SKIP = ["PPO", "DDPG", "TD3", "IPPO", "MADDPG", "MATD3"]


def _q(x):
    from fractions import Fraction
    f = Fraction(float(x))
    return f"(({f.numerator})#{f.denominator})%Q" if f.numerator < 0 else f"({f.numerator}#{f.denominator})%Q"


def _nl(xs):
    return "[" + "; ".join(str(int(x)) for x in xs) + "]"


class Tables:
    """per-case numbering of names, labels, architecture descriptors, value fingerprints"""

    def __init__(self):
        self.names, self.labels, self.archs, self.vals = {}, {None: 0, "None": 1}, {}, {}

    @staticmethod
    def _id(tab, k, start=1):
        if k not in tab:
            tab[k] = len(tab) + start
        return tab[k]

    def name(self, n):
        return self._id(self.names, n)

    def label(self, m):
        return self._id(self.labels, m, 0)

    def arch(self, d):
        return self._id(self.archs, d)

    def val(self, fp):
        return self._id(self.vals, fp)


def block_layout(snap_agent, reg, tab):
    """[(key, [slot indices])] in canonical order for one agent snapshot ({"slots":..., "struct":...})"""
    sl = snap_agent["slots"]
    owners = []
    for n in snap_agent["struct"]["nets"]:
        for c in ("enc", "head", "henc", "const", "cfg", "buf"):
            owners.append(((tab.name(n), CLS_ID[c]), n, c))
    for o in snap_agent["struct"]["opts"]:
        owners.append(((tab.name(o), 5), o, "ost"))
    owners += [((0, 6), None, "reg"), ((0, 7), None, "book"), ((0, 8), None, "ext")]
    out = []
    pos = 0
    for key, owner, c in owners:
        idx = []
        while pos < len(sl) and sl[pos][1] == c and _slot_owner(sl[pos][0], c) == owner:
            idx.append(pos)
            pos += 1
        out.append((key, idx))
    assert pos == len(sl), f"slot order does not follow the canonical layout at {sl[pos][0] if pos < len(sl) else None}"
    return out


def _slot_owner(slot_name, cls):
    if cls in ("reg", "book", "ext"):
        return None
    base = slot_name.split(".")[0]
    return base.split("[")[0]


def coq_registry(reg, tab, algo):
    def hook(h):
        if h == "init_hook":
            g = reg["groups"][0]
            return f"HSync {tab.name(g['eval'])} {tab.name(g['shared'][0])}"
        if h == "share_encoder_parameters":
            return "HShare {} {}".format(tab.name(reg["policy"]), _nl(tab.name(x) for x in reg["share_others"]))
        if h == "init_params":
            return "HBandit"
        raise ValueError(f"mutation hook {h!r} has no model")
    gs = "; ".join("mkGroup {} {} {}".format(tab.name(g["eval"]), _nl(tab.name(x) for x in g["shared"]),
                                             "true" if g["policy"] else "false") for g in reg["groups"])
    os_ = "; ".join("mkOptCfg {} {} {}".format(tab.name(o["name"]), _nl(tab.name(x) for x in o["nets"]), tab.name(o["lr"]))
                    for o in reg["opts"])
    hs = "; ".join(hook(h) for h in reg["hooks"])
    hp = _nl(tab.name(h) for h in reg["hps"])
    return f"(mkReg [{gs}] [{os_}] [{hs}] {hp} {'true' if algo in ACT_SKIP else 'false'})"


def registry_plus(agent):
    """registry_of + which networks the share hook redirects (those holding hidden encoder copies, or, for a
    freshly built agent, every non-policy network named by the algorithm's share_encoder_parameters)"""
    a = unwrap(agent)
    reg = registry_of(a)
    pol = [g["eval"] for g in reg["groups"] if g["policy"]]
    reg["policy"] = pol[0] if pol else None
    st = structure(a)
    reg["share_others"] = [n for n, d in st["nets"].items() if d["henc"] > 0]
    return reg


def coq_agent(snap_agent, reg, tab, locs, regterm):
    """locs: list of location numbers, one per slot of this agent"""
    st = snap_agent["struct"]
    lay = block_layout(snap_agent, reg, tab)
    blocks = "; ".join(f"(({k[0]}, {k[1]}), {_nl(locs[i] for i in idx)})" for k, idx in lay)
    ptr2loc = {tuple(snap_agent["slots"][i][2]): locs[i] for i in range(len(locs))}
    opts = []
    for o, d in st["opts"].items():
        refs = [ptr2loc.get(("T", p), 999999) for p in d["ref_ptrs"]]
        opts.append(f"mkOpt {tab.name(o)} {_q(d['lrs'][0])} {_nl(refs)}")
    arch = "; ".join(f"({tab.name(n)}, {tab.arch(d['arch'])})" for n, d in st["nets"].items())
    hps = "; ".join(f"({tab.name(n)}, {_q(v)})" for n, v in st["hps"].items())
    return (f"(mkAgent {st['index']} {tab.label(st['mut'])} [{arch}] [{'; '.join(opts)}] [{hps}] {regterm} [{blocks}])")


def coq_aobs(snap_agent, reg, tab):
    st = snap_agent["struct"]
    lay = block_layout(snap_agent, reg, tab)
    archs = _nl(tab.arch(d["arch"]) for d in st["nets"].values())
    opts = "; ".join("({}, {})".format("true" if d["refs_ok"] else "false", _q(d["lrs"][0])) for d in st["opts"].values())
    hps = "; ".join(_q(v) for v in st["hps"].values())
    counts = "[" + "; ".join(f"{len(idx)}%nat" for _, idx in lay) + "]"
    return f"(mkAObs {st['index']} {tab.label(st['mut'])} {archs} [{opts}] [{hps}] {counts})"


def canon_ptrs(snap):
    """pointers of all slots of a state, in slot order.  A size list (cfg) that occurs several times INSIDE one agent
    (an online network and its re-created target may hold the same list object) and in no other agent is made
    distinct per occurrence: aliasing inside an agent is not what the clone properties are about, aliasing between
    agents is kept."""
    owners = {}
    for ai, ag in enumerate(snap):
        for s in ag["slots"]:
            owners.setdefault(tuple(s[2]), set()).add(ai)
    out = []
    for ai, ag in enumerate(snap):
        for si, s in enumerate(ag["slots"]):
            p = tuple(s[2])
            if s[1] == "cfg" and len(owners[p]) == 1:
                p = p + (ai, si)
            out.append(p)
    return out


def coq_obs(snap, reg, tab):
    """snap: list of agent snapshots (one state).  alias classes are numbered per state, value classes per case."""
    alias = classes(canon_ptrs(snap))
    vals = [tab.val(s[3]) for ag in snap for s in ag["slots"]]
    ags = "; ".join(coq_aobs(ag, reg, tab) for ag in snap)
    return f"(mkObs {_nl(alias)} {_nl(vals)} [{ags}])"


def coq_world(snap, reg, tab, regterm, nvals_total):
    """initial world: locations = alias classes of the real initial population, contents = value classes"""
    alias = classes(canon_ptrs(snap))
    vals = [tab.val(s[3]) for ag in snap for s in ag["slots"]]
    heap = {}
    for l, v in zip(alias, vals):
        heap.setdefault(l, v)
    pos = 0
    agents = []
    for ag in snap:
        n = len(ag["slots"])
        agents.append(coq_agent(ag, reg, tab, alias[pos:pos + n], regterm))
        pos += n
    nxt = (max(alias) + 1) if alias else 0
    hl = "; ".join(f"({l}, {v})" for l, v in sorted(heap.items()))
    return f"(mkWorld (mkStore {nxt} {nvals_total + 1} (heap_of [{hl}])) [{'; '.join(agents)}])"
