"""C09 — replay buffers hold exactly the most recent transitions, each one intact."""
from __future__ import annotations

import itertools
import random
import sys

import numpy as np
import torch

import vlib
from vlib import Violation, coq_nat

from agilerl.components.data import Transition
from agilerl.components.replay_buffer import ReplayBuffer
from agilerl.components.multi_agent_replay_buffer import MultiAgentReplayBuffer
from agilerl.components.sampler import Sampler
import agilerl.components.multi_agent_replay_buffer as marb_mod

BAD = 4999  # decoded tag of an internally inconsistent row


# ------------------------------------------------------------------ tagged transitions
EPS64 = 2.0 ** -30  # added to float64 observations; lost by any narrowing to float32
NXT = 0.125  # next_obs carries the same tag as obs but shifted by this amount, so obs and next_obs cannot be confused


def make_obs(kind, tags, nxt=False):
    t = np.asarray(tags, dtype=np.float32) + (NXT if nxt else 0.0)
    n = len(tags)
    if kind == "vector":
        return np.stack([t, t + 0.25, t + 0.5], axis=1)
    if kind == "vector64":
        # double-precision observations whose values are NOT representable in float32: a store that narrows
        # the dtype no longer keeps the transition intact
        t64 = np.asarray(tags, dtype=np.float64) + (NXT if nxt else 0.0) + EPS64
        return np.stack([t64, t64 + 0.25, t64 + 0.5], axis=1)
    if kind == "image":
        return np.broadcast_to(t[:, None, None, None], (n, 2, 3, 3)).copy()
    if kind == "dict":
        return {"a": np.stack([t, t], axis=1), "b": t.copy()}
    if kind == "tuple":
        return (np.stack([t, t + 0.5], axis=1), t.copy())
    if kind == "scalar":
        return t.copy()
    raise ValueError(kind)


def make_transition(kind, tags):
    n = len(tags)
    t = np.asarray(tags, dtype=np.float32)
    tr = Transition(obs=make_obs(kind, tags), action=t.copy(), reward=t.copy(),
                    next_obs=make_obs(kind, tags, nxt=True), done=(t % 2).copy(), batch_size=[n])
    return tr.to_tensordict()


def dec_uniform(x, offsets=None, shift=0.0, exact=False):
    """rows -> tag (None for an all-zero row, BAD if inconsistent)"""
    x = np.asarray(x, dtype=np.float64).reshape(len(x), -1)
    out = []
    for r in x:
        if not np.any(r):
            out.append(None)
            continue
        base = r[0] - shift
        exp = base + shift + (np.asarray(offsets) if offsets is not None else 0.0)
        ok = (np.array_equal(r, exp) if exact else np.allclose(r, exp)) and float(base).is_integer() and 0 < base < BAD
        out.append(int(base) if ok else BAD)
    return out


def decode_obs(kind, o, nxt=False):
    """-> dict column name -> list of tags"""
    sh = NXT if nxt else 0.0
    if kind == "vector":
        return {"": dec_uniform(o, [0, 0.25, 0.5], sh)}
    if kind == "vector64":
        o = np.asarray(o)
        if o.dtype != np.float64:      # narrowed: every non-empty row is damaged
            return {"": [None if not np.any(r) else BAD for r in o.reshape(len(o), -1)]}
        return {"": dec_uniform(o, [0, 0.25, 0.5], sh + EPS64, exact=True)}
    if kind == "image" or kind == "scalar":
        return {"": dec_uniform(o, None, sh)}
    if kind == "dict":
        return {".a": dec_uniform(o["a"], None, sh), ".b": dec_uniform(o["b"], None, sh)}
    if kind == "tuple":
        return {".0": dec_uniform(o["tuple_obs_0"], [0, 0.5], sh), ".1": dec_uniform(o["tuple_obs_1"], None, sh)}


def decode_rows(kind, td):
    """TensorDict with leading dim n -> {column: [tag|None]*n}"""
    cols = {}
    for f in ("obs", "next_obs"):
        for k, v in decode_obs(kind, td[f], nxt=(f == "next_obs")).items():
            cols[f + k] = v
    cols["action"] = dec_uniform(td["action"])
    cols["reward"] = dec_uniform(td["reward"])
    ref = cols["action"]
    d = np.asarray(td["done"], dtype=np.float64).reshape(len(ref), -1)
    cols["done"] = [None if (r is None and not dv.any()) else
                    (r if (r is not None and r != BAD and np.all(dv == r % 2)) else BAD)
                    for r, dv in zip(ref, d)]
    return cols


def cq_col(col):
    return "[" + "; ".join("None" if x is None else f"Some {x}" for x in col) + "]"


def distinct_cols(cols: dict):
    seen, out = set(), []
    for v in cols.values():
        t = tuple(v)
        if t not in seen:
            seen.add(t)
            out.append(v)
    return out


# ------------------------------------------------------------------ the driver
class C09(vlib.Driver):
    pid = "C09"
    preamble = "From AgileV Require Import Base.Prelude C09.Model C09.Check.\nOpen Scope nat_scope."
    rule = ("single-agent: op sequences over {add width w<=cap, sample b<=len with a scripted permutation, clear}; "
            "exhaustive for small capacities/lengths, seeded long sequences otherwise; multi-agent: seeded sequences of "
            "single/vectorised saves and samples. Distinct = distinct (kind, capacity, op list). Non-trivial = at least "
            "one wrap-around, or a sample after >= 2 additions.")
    trusted_base = ["hand-written model coq/theories/C09/Model.v",
                    "correspondence harness harness/c09.py (tag encoding/decoding of transitions, scripted torch.randperm / random.sample)"]
    assumptions = ["TensorDict slice assignment and advanced indexing semantics (validated by K only)",
                   "batch widths <= capacity (guard of the theorems; wider batches are outside the property)"]
    shard = 70

    # ---------- generation
    def generate(self, tier, rng):
        cases = []
        caps = [1, 2, 3] if tier == "quick" else [1, 2, 3, 4]
        maxlen = 4 if tier == "quick" else 5
        self.exhaustive = True
        for cap in caps:
            alphabet = [("add", w) for w in range(1, cap + 1)] + [("sample", b) for b in range(1, cap + 1)] + [("clear",)]
            for L in range(1, (maxlen if cap <= 3 else 4) + 1):   # cap 4 x length 5 alone is 17 k sequences
                for seq in itertools.product(alphabet, repeat=L):
                    # prune: samples must be legal (b <= current len), clear not first; keeps the space exact
                    size, ok, ops = 0, True, []
                    for o in seq:
                        if o[0] == "add":
                            size = min(cap, size + o[1]); ops.append(["add", o[1]])
                        elif o[0] == "sample":
                            if o[1] > size:
                                ok = False; break
                            perm = list(range(size)); rng.shuffle(perm)
                            ops.append(["sample", o[1], perm])
                        else:
                            if size == 0:
                                ok = False; break
                            size = 0; ops.append(["clear"])
                    if ok and seq[-1][0] != "clear":
                        cases.append({"kind": "single", "obs": "vector", "cap": cap, "ops": ops, "every": 1})
        nseed = 40 if tier == "quick" else 400
        for i in range(nseed):
            cap = rng.choice([2, 3, 5, 7, 8, 16, 33, 64])
            n = rng.choice([20, 60]) if tier == "quick" else rng.choice([40, 120, 200])
            ops, size = [], 0
            for _ in range(n):
                r = rng.random()
                if r < 0.62 or size == 0:
                    w = rng.choice([1, 1, 2, 3, cap, max(1, cap - 1), rng.randint(1, cap)])
                    w = min(w, cap); size = min(cap, size + w); ops.append(["add", w])
                elif r < 0.97:
                    # one sample in seven is as wide as the buffer (theorem sample_complete: every stored row exactly once)
                    b = size if rng.random() < 0.15 else rng.randint(1, size)
                    perm = list(range(size)); rng.shuffle(perm)
                    ops.append(["sample", b, perm])
                else:
                    size = 0; ops.append(["clear"])
            cases.append({"kind": "single", "obs": rng.choice(["vector", "vector64", "image", "dict", "tuple", "scalar"]),
                          "cap": cap, "ops": ops, "every": 7})
            if i % 2:
                cases[-1]["companion"] = True
        nma = 60 if tier == "quick" else 600
        for i in range(nma):
            cap = rng.randint(1, 7)
            nag = rng.randint(1, 3)
            okind = rng.choice(["array", "dict", "tuple"])
            ops, size = [], 0
            for _ in range(rng.randint(2, 9)):
                r = rng.random()
                if r < 0.4 or size == 0:
                    e = rng.randint(1, 4); ops.append(["vect", e]); size = min(cap, size + e)
                elif r < 0.65:
                    ops.append(["single"]); size = min(cap, size + 1)
                else:
                    b = rng.randint(1, size)
                    ops.append(["sample", rng.sample(range(size), b)])
            cases.append({"kind": "multi", "obs": okind, "cap": cap, "agents": nag, "ops": ops, "korder": i % 3})
            if i % 2:
                cases[-1]["mixed"] = True      # fields whose dtype differs between transitions (seeded change C09-u2)
            if i % 3 == 1:
                cases[-1]["companion"] = True  # a second buffer used in between (state shared across objects)
        return cases

    # ---------- implementation
    def run_impl(self, case):
        return self.run_single(case) if case["kind"] == "single" else self.run_multi(case)

    def run_single(self, case):
        cap, kind = case["cap"], case["obs"]
        buf = ReplayBuffer(max_size=cap)
        # `companion`: a second buffer of the same capacity lives in the process and is used between the operations of
        # the buffer under test, and one Sampler object is reused for all its samples (state kept at class / module
        # level, or in the front end, would leak between them); the trace of the buffer under test must not change
        comp = ReplayBuffer(max_size=cap) if case.get("companion") else None
        smp = Sampler(memory=buf) if comp is not None else None
        nxt = 1
        trace, handed = [], []
        every = case.get("every", 1)
        orig = torch.randperm
        try:
            for oi, op in enumerate(case["ops"]):
                rec = {"sample": None}
                if comp is not None:
                    if oi % 5 == 4:
                        comp.clear()
                    comp.add(make_transition(kind, [3000 + oi % 1000] * (1 + oi % min(cap, 3))))
                    if oi % 3 == 0:
                        comp.sample(1)
                if op[0] == "add":
                    tags = list(range(nxt, nxt + op[1])); nxt += op[1]
                    rec["tags"] = tags
                    buf.add(make_transition(kind, tags))
                elif op[0] == "sample":
                    perm = op[2]

                    def fake(n, *a, _p=perm, **k):
                        assert n == len(_p), f"randperm({n}) but scripted permutation has {len(_p)} entries"
                        return torch.tensor(_p, dtype=torch.long)
                    torch.randperm = fake
                    try:
                        # every second sample goes through the Sampler front end the training loops use
                        if oi % 2:
                            s = (smp or Sampler(memory=buf)).sample(op[1], return_idx=True)
                        else:
                            s = buf.sample(op[1], return_idx=True)
                    finally:
                        torch.randperm = orig
                    rows = decode_rows(kind, s)
                    rec["sample"] = {"idx": [int(i) for i in s["idxs"]], "rows": rows}
                    handed.append((s, rows))
                else:
                    buf.clear()
                rec["len"] = len(buf)
                rec["is_full"] = bool(buf.is_full)
                rec["counter"] = int(buf.counter)
                if oi % every == 0 or oi == len(case["ops"]) - 1:
                    st = buf.storage
                    rec["cols"] = decode_rows(kind, st) if st is not None else {"all": [None] * cap}
                else:
                    rec["cols"] = None
                trace.append(rec)
        finally:
            torch.randperm = orig
        # batches handed out earlier must not have been altered by later operations
        mutated = [i for i, (s, rows) in enumerate(handed) if decode_rows(kind, s) != rows]
        return {"trace": trace, "mutated_batches": mutated}

    FIELDS = ["state", "action", "reward", "next_state", "done"]

    def ma_value(self, okind, f, tagf, sc=1):
        """value of one agent for field f, tagf(member) -> per-env list of tags.  With sc=2 (case flag `mixed`) the
        stored value is tag/2: observation tags are even (same float32 values as before), the other fields carry an
        odd tag on every second transition, so that the SAME field holds integers (int64 array / Python int) on some
        transitions and halves (float64 array / Python float) on others -- stacking must promote, not truncate."""
        if sc != 1:
            if f not in ("action", "reward"):
                return self.ma_value(okind, f, lambda m: [t // sc for t in tagf(m)])
            ts = tagf(0)
            if all(t % sc == 0 for t in ts):
                return np.array([t // sc for t in ts], dtype=np.int64)
            return np.array([t / sc for t in ts], dtype=np.float64)
        if f in ("state", "next_state") and okind == "dict":
            return {"p": np.array([[t, t] for t in tagf(0)], dtype=np.float32), "q": np.array(tagf(1), dtype=np.float32)}
        if f in ("state", "next_state") and okind == "tuple":
            return (np.array([[t, t] for t in tagf(0)], dtype=np.float32), np.array([[t] for t in tagf(1)], dtype=np.float32))
        if f in ("state", "next_state"):
            return np.array([[t, t, t] for t in tagf(0)], dtype=np.float32)
        return np.array(tagf(0), dtype=np.float32)

    @classmethod
    def ma_tag(cls, case, kk, fi, a, m):
        """tag of transition kk, field fi, agent a, member m (what the harness stores and what the oracle expects)"""
        base = kk % 2 if cls.FIELDS[fi] == "done" else 1 + (((kk * 5 + fi) * 3 + a) * 2 + m)
        if not case.get("mixed"):
            return base
        # observations stay float32; `done` is cast to uint8 by the buffer by design: only action / reward vary in dtype
        return 2 * base + ((kk + a) % 2 if cls.FIELDS[fi] in ("action", "reward") else 0)

    @staticmethod
    def reorder(d, case, fi):
        """the caller's dictionaries need not list the agents in agent_ids order: rotate/reverse per field"""
        mode = case.get("korder", 0)
        keys = list(d)
        if mode == 1:
            keys = keys[::-1]
        elif mode == 2:
            r = (fi + 1) % len(keys)
            keys = keys[r:] + keys[:r]
        return {k: d[k] for k in keys}

    def run_multi(self, case):
        cap, nag, okind = case["cap"], case["agents"], case["obs"]
        agents = [f"agent_{i}" for i in range(nag)]
        buf = MultiAgentReplayBuffer(cap, self.FIELDS, agents)
        comp = MultiAgentReplayBuffer(cap, self.FIELDS, agents) if case.get("companion") else None
        k = 0
        trace = []

        def comp_step(oi):
            """use the companion buffer (same capacity, same agents) between two operations of the buffer under test"""
            args = []
            for f in self.FIELDS:
                d = {}
                for an in agents:
                    v = self.ma_value(okind, f, lambda m: [4000 + oi % 500])
                    v = {x: y[0] for x, y in v.items()} if isinstance(v, dict) else (tuple(y[0] for y in v) if isinstance(v, tuple) else v[0])
                    d[an] = v
                args.append(d)
            comp.save_to_memory(*args, is_vectorised=False)
            if oi % 2:
                comp.sample(1)

        sc = 2 if case.get("mixed") else 1

        def tag(kk, fi, a, m):
            return self.ma_tag(case, kk, fi, a, m)

        def dec_leaf(x):
            x = np.asarray(x, dtype=np.float64).reshape(-1) * sc
            return int(x[0]) if np.all(x == x[0]) and float(x[0]).is_integer() and 0 <= x[0] < BAD else BAD

        def dec_val(v):
            if isinstance(v, dict):
                return {"M": [dec_leaf(v[kk]) for kk in v]}
            if isinstance(v, tuple):
                return {"M": [dec_leaf(x) for x in v]}
            return {"L": dec_leaf(v)}

        orig = marb_mod.random.sample
        try:
            for oi_, op in enumerate(case["ops"]):
                rec = {"sample": None, "args": None}
                if comp is not None:
                    comp_step(oi_)
                if op[0] == "vect":
                    E = op[1]
                    ks = list(range(k, k + E)); k += E
                    args, margs = [], []
                    for fi, f in enumerate(self.FIELDS):
                        d, md = {}, []
                        for a, an in enumerate(agents):
                            d[an] = self.ma_value(okind, f, lambda m: [tag(kk, fi, a, m) for kk in ks], sc)
                            nm = 2 if (f in ("state", "next_state") and okind in ("dict", "tuple")) else 1
                            md.append([a, [[tag(kk, fi, a, m) for kk in ks] for m in range(nm)], nm > 1 or False])
                        args.append(self.reorder(d, case, fi)); margs.append(md)
                    rec["args"] = margs
                    buf.save_to_memory(*args, is_vectorised=True)
                elif op[0] == "single":
                    kk = k; k += 1
                    args, margs = [], []
                    for fi, f in enumerate(self.FIELDS):
                        d, md = {}, []
                        for a, an in enumerate(agents):
                            v = self.ma_value(okind, f, lambda m: [tag(kk, fi, a, m)], sc)
                            # un-vectorised: drop the env axis
                            if sc != 1 and f in ("action", "reward"):
                                v = v[0].item()          # a plain Python int or float, as a caller's reward would be
                            elif isinstance(v, dict):
                                v = {x: y[0] for x, y in v.items()}
                            elif isinstance(v, tuple):
                                v = tuple(y[0] for y in v)
                            else:
                                v = v[0]
                            d[an] = v
                            nm = 2 if (f in ("state", "next_state") and okind in ("dict", "tuple")) else 1
                            md.append([a, [tag(kk, fi, a, m) for m in range(nm)], nm > 1])
                        args.append(self.reorder(d, case, fi)); margs.append(md)
                    rec["args"] = margs
                    buf.save_to_memory(*args, is_vectorised=False)
                else:
                    idx = op[1]

                    def fake(pop, k, _idx=idx):
                        assert k == len(_idx)
                        pop = list(pop)
                        return [pop[i] for i in _idx]
                    marb_mod.random.sample = fake
                    try:
                        out = Sampler(memory=buf).sample(len(idx)) if len(trace) % 2 else buf.sample(len(idx))
                    finally:
                        marb_mod.random.sample = orig
                    smp = []
                    for fi, f in enumerate(self.FIELDS):
                        per_agent = []
                        for a, an in enumerate(agents):
                            v = out[fi][an]
                            if isinstance(v, dict):
                                vals = [{"M": [dec_leaf(v[kk][j]) for kk in v]} for j in range(len(idx))]
                            elif isinstance(v, tuple):
                                vals = [{"M": [dec_leaf(x[j]) for x in v]} for j in range(len(idx))]
                            else:
                                vals = [{"L": dec_leaf(v[j])} for j in range(len(idx))]
                            per_agent.append([a, vals])
                        smp.append(per_agent)
                    rec["sample"] = smp
                rec["len"] = len(buf)
                rec["mem"] = [[[[a, dec_val(getattr(e, f)[an])] for a, an in enumerate(agents)]
                               for f in self.FIELDS] for e in buf.memory]
                trace.append(rec)
        finally:
            marb_mod.random.sample = orig
        return {"trace": trace}

    # ---------- model term
    def coq_term(self, case, obs):
        if case["kind"] == "single":
            ops, obl = [], []
            for op, rec in zip(case["ops"], obs["trace"]):
                if op[0] == "add":
                    ops.append("Add [" + "; ".join(str(t) for t in rec["tags"]) + "]")
                elif op[0] == "sample":
                    ops.append(f"Sample [{'; '.join(map(str, op[2]))}] {op[1]}")
                else:
                    ops.append("Clear")
                cols = "[" + "; ".join(cq_col(c) for c in distinct_cols(rec["cols"])) + "]" if rec["cols"] else "[]"
                if rec["sample"]:
                    s = rec["sample"]
                    smp = "Some ([" + "; ".join(map(str, s["idx"])) + "], [" + "; ".join(cq_col(c) for c in distinct_cols(s["rows"])) + "])"
                else:
                    smp = "None"
                obl.append(f"({rec['len']}, {cols}, {smp})")
            return f"check_rb {case['cap']} [{'; '.join(ops)}] [{'; '.join(obl)}]"
        # multi-agent
        def sval(d):
            if "L" in d:
                return f"SLeaf (Some {d['L']})"
            return "SMembers [" + "; ".join(f"Some {x}" for x in d["M"]) + "]"
        ops, obl = [], []
        for op, rec in zip(case["ops"], obs["trace"]):
            if op[0] == "vect":
                fs = []
                for md in rec["args"]:
                    ents = []
                    for a, members, ism in md:
                        if ism:
                            ents.append(f"({a}, VMembers [" + "; ".join("[" + "; ".join(map(str, m)) + "]" for m in members) + "])")
                        else:
                            ents.append(f"({a}, VLeaf [" + "; ".join(map(str, members[0])) + "])")
                    fs.append("[" + "; ".join(ents) + "]")
                ops.append("MAVect [" + "; ".join(fs) + "]")
            elif op[0] == "single":
                fs = []
                for md in rec["args"]:
                    ents = []
                    for a, members, ism in md:
                        if ism:
                            ents.append(f"({a}, SMembers [" + "; ".join(f"Some {m}" for m in members) + "])")
                        else:
                            ents.append(f"({a}, SLeaf (Some {members[0]}))")
                    fs.append("[" + "; ".join(ents) + "]")
                ops.append("MASingle [" + "; ".join(fs) + "]")
            else:
                ops.append("MASample [" + "; ".join(map(str, op[1])) + "]")
            mem = "[" + "; ".join("[" + "; ".join("[" + "; ".join(f"({a}, {sval(v)})" for a, v in f) + "]" for f in e) + "]" for e in rec["mem"]) + "]"
            if rec["sample"] is not None:
                smp = "Some [" + "; ".join("[" + "; ".join(f"({a}, [" + "; ".join(f"Some ({sval(v)})" for v in vals) + "])" for a, vals in f) + "]" for f in rec["sample"]) + "]"
            else:
                smp = "None"
            obl.append(f"({rec['len']}, {mem}, {smp})")
        agents = "[" + "; ".join(str(a) for a in range(case["agents"])) + "]"
        return f"check_ma {case['cap']} 5 {agents} [] [{'; '.join(ops)}] [{'; '.join(obl)}]"

    # ---------- oracle: the property stated directly on the implementation's behaviour
    def oracle(self, case, obs):
        out = []
        if case["kind"] == "single":
            cap = case["cap"]
            hist = []
            total = 0
            for oi, (op, rec) in enumerate(zip(case["ops"], obs["trace"])):
                if op[0] == "add":
                    hist += rec["tags"]
                    total += len(rec["tags"])
                if rec.get("is_full") is not None and rec["is_full"] != (rec["len"] == cap):
                    out.append(Violation("is-full", "single:is-full", f"op {oi}: is_full={rec['is_full']} with len {rec['len']} of {cap}"))
                if rec.get("counter") is not None and rec["counter"] != total:
                    out.append(Violation("counter", "single:counter", f"op {oi}: counter={rec['counter']} but {total} transitions were added"))
                elif op[0] == "clear":
                    hist = []
                want = hist[-cap:] if hist else []
                if rec["len"] != len(want):
                    out.append(Violation("len", "single:len", f"op {oi}: len={rec['len']} expected {len(want)}"))
                    break
                if rec["cols"]:
                    for name, col in rec["cols"].items():
                        stored = [x for x in col[:rec["len"]]]
                        if sorted(stored, key=lambda x: -1 if x is None else x) != sorted(want) or any(x is not None for x in col[rec["len"]:]):
                            out.append(Violation("contents", f"single:contents:{name.split('.')[0]}",
                                                 f"op {oi}: column {name} holds {col}, expected the tags {want} in the first {len(want)} slots"))
                            break
                    cols = list(rec["cols"].values())
                    if any(c != cols[0] for c in cols):
                        out.append(Violation("fields-together", "single:fields-together", f"op {oi}: field columns disagree: {rec['cols']}"))
                if rec["sample"]:
                    idx = rec["sample"]["idx"]
                    rows = rec["sample"]["rows"]
                    if len(set(idx)) != len(idx) or any(i >= rec["len"] for i in idx) or len(idx) != op[1]:
                        out.append(Violation("sample-indices", "single:sample-indices", f"op {oi}: indices {idx} (len {rec['len']}, batch {op[1]})"))
                    for name, col in rows.items():
                        if any(x is None or x not in want for x in col) or col != list(rows.values())[0]:
                            out.append(Violation("sample-rows", "single:sample-rows", f"op {oi}: sampled rows {rows}, stored tags {want}"))
                            break
                if out:
                    break
            if obs["mutated_batches"]:
                out.append(Violation("batch-immutable", "single:batch-mutated", f"batches {obs['mutated_batches']} changed after they were handed out"))
        else:
            cap = case["cap"]
            n = 0
            for oi, (op, rec) in enumerate(zip(case["ops"], obs["trace"])):
                if op[0] == "vect":
                    n += op[1]
                elif op[0] == "single":
                    n += 1
                if rec["len"] != min(n, cap):
                    out.append(Violation("len", "multi:len", f"op {oi}: len={rec['len']} expected {min(n, cap)}"))
                    break
                # experience j (oldest first) must be transition number n - len + j in every field/agent/member
                first = n - rec["len"]
                for j, e in enumerate(rec["mem"]):
                    kk = first + j
                    for fi, f in enumerate(e):
                        for a, v in f:
                            vals = v["M"] if "M" in v else [v["L"]]
                            for m, x in enumerate(vals):
                                exp = self.ma_tag(case, kk, fi, a, m)
                                if x != exp:
                                    out.append(Violation("contents", "multi:contents", f"op {oi}: experience {j} field {self.FIELDS[fi]} agent {a} member {m} = {x}, expected {exp}"))
                                    return out
                if rec["sample"] is not None:
                    idx = op[1]
                    for fi, f in enumerate(rec["sample"]):
                        for a, vals in f:
                            for j, v in enumerate(vals):
                                kk = first + idx[j]
                                xs = v["M"] if "M" in v else [v["L"]]
                                for m, x in enumerate(xs):
                                    exp = self.ma_tag(case, kk, fi, a, m)
                                    if x != exp:
                                        out.append(Violation("sample-rows", "multi:sample-rows", f"op {oi}: sample {j} field {self.FIELDS[fi]} agent {a} = {x}, expected {exp}"))
                                        return out
        return out

    def key(self, case):
        k = dict(case)
        # permutations / sample picks are not part of the identity of an op list
        k["ops"] = [o[:2] if o[0] == "sample" and case["kind"] == "single" else o for o in case["ops"]]
        return super().key(k)

    def nontrivial(self, case, obs):
        if case["kind"] == "single":
            size, adds, wrapped, sampled = 0, 0, False, False
            cur = 0
            for op in case["ops"]:
                if op[0] == "add":
                    if cur + op[1] > case["cap"] or (size == case["cap"]):
                        wrapped = True
                    cur = (cur + op[1]) % case["cap"]; size = min(case["cap"], size + op[1]); adds += 1
                elif op[0] == "sample" and adds >= 2:
                    sampled = True
                elif op[0] == "clear":
                    size = cur = 0
            return wrapped or sampled
        n = sum(o[1] if o[0] == "vect" else 1 for o in case["ops"] if o[0] != "sample")
        return n > case["cap"] or any(o[0] == "sample" for o in case["ops"])

    def classify(self, case, obs):
        labs = [f"kind={case['kind']}", f"obs={case['obs']}", f"cap={case['cap'] if case['cap'] <= 8 else '>8'}"]
        if case["kind"] == "multi":
            labs.append(f"caller-dict-order={['agent_ids', 'reversed', 'rotated-per-field'][case.get('korder', 0)]}")
            labs.append("field-dtypes=" + ("mixed-int-and-float-per-transition" if case.get("mixed") else "uniform-float32"))
        labs.append("companion-buffer=" + ("yes" if case.get("companion") else "no"))
        for op in case["ops"]:
            labs.append(f"op={case['kind']}:{op[0]}")
        if self.nontrivial(case, obs):
            labs.append("wrap-or-sample-after-2-adds")
        return labs

    def neighbours(self, case, rng):
        # same op list with one op dropped
        for i in range(len(case["ops"])):
            c = dict(case); c["ops"] = case["ops"][:i] + case["ops"][i + 1:]
            if c["kind"] == "single":
                # re-legalise samples
                size, ops = 0, []
                for o in c["ops"]:
                    if o[0] == "add":
                        size = min(c["cap"], size + o[1]); ops.append(o)
                    elif o[0] == "sample":
                        if size == 0:
                            continue
                        b = min(o[1], size); perm = list(range(size)); rng.shuffle(perm); ops.append(["sample", b, perm])
                    else:
                        size = 0; ops.append(o)
                c["ops"] = ops
                yield c


if __name__ == "__main__":
    sys.exit(vlib.run_check(C09()))
