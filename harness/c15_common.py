"""C15 helpers: spaces / observations from case descriptions, exact export to Coq, NumPy reference."""
from __future__ import annotations

import numpy as np
import torch
from gymnasium import spaces
from tensordict import TensorDict

from vlib import coq_Q

TOL_NORM = "(1#4194304)"        # 2^-22 relative: float32 division by a non-dyadic range


def np_dtype(name):
    return {"float32": np.float32, "float64": np.float64, "uint8": np.uint8, "int64": np.int64, "int8": np.int8,
            "int16": np.int16, "int32": np.int32}[name]


# ------------------------------------------------------------------ spaces
def box_bounds(spec):
    """-> (low array, high array) of the space's shape, float64 (inf allowed)"""
    shape = tuple(spec["shape"])
    m = int(np.prod(shape)) if shape else 1
    if isinstance(spec["low"], list) or isinstance(spec["high"], list):      # explicit per-element bounds (flat, row-major)
        lo = np.array(spec["low"], dtype=np.float64) if isinstance(spec["low"], list) else np.full(m, float(spec["low"]))
        hi = np.array(spec["high"], dtype=np.float64) if isinstance(spec["high"], list) else np.full(m, float(spec["high"]))
        return lo.reshape(shape), hi.reshape(shape)
    if spec["low"] == "per":
        lo = np.zeros(m)
        hi = np.array([2.0 ** (j % 3 + 1) for j in range(m)])
        return lo.reshape(shape), hi.reshape(shape)
    lo = -np.inf if spec["low"] == "-inf" else float(spec["low"])
    hi = np.inf if spec["high"] == "inf" else float(spec["high"])
    return np.full(shape, lo), np.full(shape, hi)


def build_space(spec):
    t = spec["t"]
    if t == "box":
        lo, hi = box_bounds(spec)
        dt = np_dtype(spec["dtype"])
        if np.issubdtype(dt, np.integer):
            lo, hi = lo.astype(dt), hi.astype(dt)
        return spaces.Box(low=lo.astype(dt), high=hi.astype(dt), shape=tuple(spec["shape"]), dtype=dt)
    if t == "discrete":
        return spaces.Discrete(spec["n"])
    if t == "md":
        return spaces.MultiDiscrete(spec["nvec"])
    if t == "mb":
        return spaces.MultiBinary(spec["n"])
    if t == "dict":
        return spaces.Dict({f"k{k}": build_space(l) for k, l in spec["fields"]})
    if t == "tuple":
        return spaces.Tuple(tuple(build_space(l) for l in spec["members"]))
    raise ValueError(t)


def space_shape(leaf):
    t = leaf["t"]
    return {"box": lambda: list(leaf["shape"]), "discrete": lambda: [], "md": lambda: [len(leaf["nvec"])],
            "mb": lambda: [leaf["n"]]}[t]()


def net_input_shape(leaf):
    t = leaf["t"]
    return {"box": lambda: list(leaf["shape"]), "discrete": lambda: [leaf["n"]], "md": lambda: [int(sum(leaf["nvec"]))],
            "mb": lambda: [leaf["n"]]}[t]()


def leaf_lead_ok(lead):
    return len(lead) <= 2


def leaves(spec):
    if spec["t"] == "dict":
        return [l for _, l in spec["fields"]]
    if spec["t"] == "tuple":
        return list(spec["members"])
    return [spec]


def is_md_rank3(case):
    return len(case["lead"]) == 2 and any(l["t"] == "md" for l in leaves(case["space"]))


def uses_inexact_norm(case):
    """does the case involve float32 rounding (non-dyadic normalisation range, or float64 inputs that are rounded by .float())?"""
    if any(l["t"] == "box" and (l["low"] == -3 or l["dtype"] == "int32") for l in leaves(case["space"])):
        return True                                      # values that .float() rounds
    if not case.get("normalize"):
        return False
    for l in leaves(case["space"]):
        if l["t"] == "box" and len(l["shape"]) == 3 and (isinstance(l["low"], list) or isinstance(l["high"], list)):
            lo, hi = box_bounds(l)
            if np.any(np.frexp(hi - lo)[0] != 0.5):
                return True
        elif l["t"] == "box" and len(l["shape"]) == 3 and l["low"] not in ("-inf", "per") and l["high"] != "inf":
            rng = float(l["high"]) - float(l["low"])
            m, _ = np.frexp(rng)
            if m != 0.5:
                return True
    return False


# ------------------------------------------------------------------ observations
def leaf_array(leaf, lead, pat=0, trail=None, bad=None):
    ss = space_shape(leaf)
    B = int(np.prod(lead)) if lead else 1
    m = int(np.prod(ss)) if ss else 1
    i = np.arange(B * m, dtype=np.int64)
    t = leaf["t"]
    if t == "box":
        dt, lo, hi = leaf["dtype"], leaf["low"], leaf["high"]
        if isinstance(lo, list) or isinstance(hi, list):   # per-element bounds: low + {0, 1/4, 1/2, 1, 3/4} of the element's range
            blo, bhi = box_bounds(leaf)
            blo, bhi = blo.reshape(-1), bhi.reshape(-1)
            frac = np.array([0.0, 0.25, 0.5, 1.0, 0.75])[(i + pat) % 5]
            v = blo[i % m] + frac * (bhi[i % m] - blo[i % m])
        elif dt == "uint8" and pat == 99:                  # pixels exactly at the bounds
            v = np.where(i % 2 == 0, 0, 255)
        elif dt == "uint8":
            v = (37 * i + 11 * pat + 3) % 256
        elif dt in ("int8", "int16", "int32"):            # signed images whose range does not fit the dtype; bounds included
            step = {"int8": 37, "int16": 7919, "int32": 123456789}[dt]
            v = np.array([int(lo) + (k * step + 11 * pat) % (int(hi) - int(lo) + 1) for k in range(B * m)], dtype=np.int64)
            if B * m >= 2:
                v[0], v[-1] = int(lo), int(hi)
        elif dt == "int64":
            v = ((i + pat) % 5) if lo == 0 else ((3 * i + pat) % 11 - 5)
        elif lo == "per":
            v = ((3 * i + pat) % 3) * 0.5
        elif lo == "-inf":
            v = ((7 * i + pat) % 23 - 11) / 4.0
        elif hi == "inf":
            v = ((7 * i + pat) % 23) / 4.0
        elif lo == 0 and hi == 1:
            v = ((3 * i + pat) % 9) / 8.0
        elif lo == -3:                                   # float64 values that float32 cannot represent exactly
            v = ((7 * i + pat) % 61 - 30) / 10.0
        elif lo == -1:
            v = ((5 * i + 3 * pat) % 17 - 8) / 8.0
        else:
            v = ((5 * i + pat) % 17 - 8) / 4.0
        arr = np.asarray(v).astype(np_dtype(dt))
    elif t == "discrete":
        arr = ((i + pat + (i // leaf["n"]) * (pat % 2)) % leaf["n"]).astype(np.int64)
        if bad == "class_high":
            arr[0] = leaf["n"]
        if bad == "class_neg":
            arr[-1] = -1
    elif t == "md":
        nv = np.asarray(leaf["nvec"], dtype=np.int64)
        b, j = i // m, i % m
        arr = ((b + j + pat) % nv[j]).astype(np.int64)
        if bad == "class_high":
            arr[0] = nv[0]
    elif t == "mb":
        arr = ((i + i // 3 + pat) % 2).astype(np.int8)
    else:
        raise ValueError(t)
    return arr.reshape(tuple(lead) + tuple(ss) + tuple(trail or ()))


def make_obs_arrays(case):
    sp = case["space"]
    lead, pat = case["lead"], case.get("pat", 0)
    if sp["t"] == "dict":
        return {k: leaf_array(l, lead, pat + k) for k, l in sp["fields"]}
    if sp["t"] == "tuple":
        return [leaf_array(l, lead, pat + k) for k, l in enumerate(sp["members"])]
    return leaf_array(sp, lead, pat, case.get("trail"), case.get("bad"))


def _row(leaf, arr, lead, row):
    ss = space_shape(leaf)
    B = int(np.prod(lead)) if lead else 1
    return arr.reshape((B,) + tuple(ss))[row].copy()


def _conv(a, inp):
    if inp in ("tensor", "tensordict", "tensordict_cpu"):
        return torch.from_numpy(np.ascontiguousarray(a))
    if inp == "number":
        return a.item()
    if inp == "npscalar":
        return np.asarray(a)[()]                     # numpy scalar (np.float32 / np.int64), not a 0-d array
    return a


def to_input(case, arrays, row=None):
    """the observation handed to the implementation (whole batch, or one row of it as an unbatched observation)"""
    sp, inp, lead = case["space"], case["input"], case["lead"]
    if sp["t"] == "dict":
        d = {}
        for k in case["order"]:
            leaf = dict(sp["fields"])[k] if not isinstance(sp["fields"], dict) else sp["fields"][k]
            a = arrays[k] if row is None else _row(leaf, arrays[k], lead, row)
            d[f"k{k}"] = _conv(a, inp)
        if inp == "tensordict":
            return TensorDict(d, batch_size=list(lead) if row is None else [])
        if inp == "tensordict_cpu":                  # a TensorDict that already carries the target device
            return TensorDict(d, batch_size=list(lead) if row is None else [], device="cpu")
        return d
    if sp["t"] == "tuple":
        return tuple(_conv(arrays[k] if row is None else _row(l, arrays[k], lead, row), inp) for k, l in enumerate(sp["members"]))
    a = arrays if row is None else _row(sp, arrays, lead, row)
    return _conv(a, inp)


def tensor1(t):
    t = t.detach().cpu()
    return {"shape": [int(x) for x in t.shape], "data": [float(x) for x in t.reshape(-1).double().tolist()], "dtype": str(t.dtype)}


def tensor_out(case, out):
    if isinstance(out, (dict, TensorDict)):
        return {"items": [[int(str(k)[1:]), tensor1(v)] for k, v in out.items()]}
    if isinstance(out, tuple):
        return {"items": [tensor1(v) for v in out]}
    return tensor1(out)


# ------------------------------------------------------------------ NumPy reference (oracle), float64
def ref_rows(leaf, arr, B, normalize):
    ss = space_shape(leaf)
    x = np.asarray(arr).reshape((B,) + tuple(ss))
    t = leaf["t"]
    if t == "box":
        x = x.astype(np.float64)
        if len(ss) == 3 and normalize:
            lo, hi = box_bounds(leaf)
            if not (np.isinf(hi).any() or np.isinf(lo).any()) and not (np.all(hi == 1) and np.all(lo == 0)):
                x = (x - lo[None]) / (hi - lo)[None]
        return x.reshape(B, -1)
    if t == "discrete":
        return np.eye(leaf["n"])[x.reshape(B)]
    if t == "md":
        return np.concatenate([np.eye(n)[x[:, j]] for j, n in enumerate(leaf["nvec"])], axis=1)
    if t == "mb":
        return x.astype(np.float64).reshape(B, -1)
    raise ValueError(t)


# ------------------------------------------------------------------ Coq terms
def coq_nats(l):
    return "[" + "; ".join(str(int(x)) for x in l) + "]"


def coq_qs(l):
    return "[" + "; ".join(coq_Q(x) for x in l) + "]"


def coq_tq(shape, data):
    return f"(T {coq_nats(shape)} {coq_qs(data)})"


def coq_leaf(l):
    t = l["t"]
    if t == "box":
        if len(l["shape"]) == 3:                       # bounds only matter for image spaces
            lo, hi = box_bounds(l)
            bounded = not (np.isinf(hi).any() or np.isinf(lo).any())
            if bounded:
                return f"(Box {coq_nats(l['shape'])} true {coq_qs(lo.reshape(-1).tolist())} {coq_qs(hi.reshape(-1).tolist())})"
            return f"(Box {coq_nats(l['shape'])} false [] [])"
        return f"(Box {coq_nats(l['shape'])} true [] [])"
    if t == "discrete":
        return f"(Discrete {l['n']})"
    if t == "md":
        return f"(MultiDiscrete {coq_nats(l['nvec'])})"
    if t == "mb":
        return f"(MultiBinary {l['n']})"
    raise ValueError(t)


def coq_space(sp):
    if sp["t"] == "dict":
        return "(DictS [" + "; ".join(f"({k}, {coq_leaf(l)})" for k, l in sp["fields"]) + "])"
    if sp["t"] == "tuple":
        return "(TupleS [" + "; ".join(coq_leaf(l) for l in sp["members"]) + "])"
    return f"(Leaf {coq_leaf(sp)})"


def _arr_tq(a):
    a = np.asarray(a)
    return coq_tq(list(a.shape), a.reshape(-1).tolist())


def coq_obs(case, arrays):
    sp = case["space"]
    if sp["t"] == "dict":
        return "(ODict [" + "; ".join(f"({k}, {_arr_tq(arrays[k])})" for k in case["order"]) + "])"
    if sp["t"] == "tuple":
        return "(OTuple [" + "; ".join(_arr_tq(a) for a in arrays) + "])"
    return f"(OLeaf {_arr_tq(arrays)})"


def coq_pobs(case, ok):
    sp = case["space"]
    if sp["t"] == "dict":
        # a result dict is compared as a map: entries listed in the order of the observation dict
        pos = {k: i for i, k in enumerate(case["order"])}
        items = sorted(ok["items"], key=lambda kv: pos.get(kv[0], len(pos)))
        return "(PDict [" + "; ".join(f"({k}, {coq_tq(v['shape'], v['data'])})" for k, v in items) + "])"
    if sp["t"] == "tuple":
        return "(PTuple [" + "; ".join(coq_tq(v["shape"], v["data"]) for v in ok["items"]) + "])"
    return f"(PLeaf {coq_tq(ok['shape'], ok['data'])})"
