"""C16 — stochastic policies report the true log-probability and entropy of their actions."""
from __future__ import annotations

import math
import random
import sys

import numpy as np
import torch
from gymnasium import spaces

import vlib
from vlib import Violation, coq_Q
import c16_eval as E

from agilerl.networks.actors import StochasticActor

TOL = 1e-4
OBS_DIM = 4


def obs_space_of(kind):
    if kind == "image":
        return spaces.Box(0.0, 1.0, (3, 16, 16), dtype=np.float32)
    if kind == "dict":
        return spaces.Dict({"v": spaces.Box(-1.0, 1.0, (3,), dtype=np.float32), "d": spaces.Discrete(3)})
    if kind == "discrete":
        return spaces.Discrete(5)
    return spaces.Box(-1.0, 1.0, (OBS_DIM,), dtype=np.float32)


def sample_obs(kind, B, g):
    if kind == "image":
        return g.uniform(0, 1, (B, 3, 16, 16)).astype(np.float32)
    if kind == "dict":
        return {"v": g.uniform(-1, 1, (B, 3)).astype(np.float32), "d": g.integers(0, 3, (B,))}
    if kind == "discrete":
        return g.integers(0, 5, (B,))
    return g.uniform(-1, 1, (B, OBS_DIM)).astype(np.float32)


def snap(x):
    """deep numpy copy of what a caller hands to the code under test (arrays, tensors, dicts, lists)"""
    if isinstance(x, dict):
        return {k: snap(v) for k, v in x.items()}
    if isinstance(x, (list, tuple)):
        return [snap(v) for v in x]
    if isinstance(x, torch.Tensor):
        return x.detach().cpu().numpy().copy()
    if isinstance(x, np.ndarray):
        return x.copy()
    return x


def unchanged(x, s0):
    if isinstance(x, dict):
        return list(x) == list(s0) and all(unchanged(x[k], s0[k]) for k in x)
    if isinstance(x, (list, tuple)):
        return len(x) == len(s0) and all(unchanged(a, b) for a, b in zip(x, s0))
    if isinstance(x, torch.Tensor):
        x = x.detach().cpu().numpy()
    if isinstance(x, np.ndarray):
        return x.dtype == s0.dtype and x.shape == s0.shape and bool(np.array_equal(x, s0, equal_nan=True))
    return x == s0


class ArgWatch:
    """'arguments are not modified': remembers what was handed to the code under test and reports what it changed"""

    def __init__(self):
        self.items = []

    def give(self, name, x):
        self.items.append((name, x, snap(x)))
        return x

    def modified(self):
        return [n for n, x, s0 in self.items if not unchanged(x, s0)]


def to_net(kind, obs):
    """what StochasticActor.forward expects: the algorithm-side preprocessing of a raw batch"""
    if kind in (None, "vector"):
        return torch.as_tensor(obs)
    from agilerl.utils.algo_utils import preprocess_observation
    return preprocess_observation(obs, obs_space_of(kind), "cpu", True)
BIG = -1e8


# ------------------------------------------------------------------ spaces
def gym_space(sp):
    k = sp["kind"]
    if k == "discrete":
        return spaces.Discrete(sp["n"])
    if k == "multidiscrete":
        return spaces.MultiDiscrete(sp["nvec"])
    if k == "multibinary":
        return spaces.MultiBinary(sp["n"])
    dt = np.float64 if sp.get("dtype") == "float64" else np.float32      # bounds given in another numeric type
    return spaces.Box(np.array(sp["low"], dtype=dt), np.array(sp["high"], dtype=dt), dtype=dt)


def coq_space(sp):
    k = sp["kind"]
    if k == "discrete":
        return f"(Discrete {sp['n']})"
    if k == "multidiscrete":
        return "(MultiDiscrete [" + "; ".join(map(str, sp["nvec"])) + "])"
    if k == "multibinary":
        return f"(MultiBinary {sp['n']})"
    return f"(Box {len(sp['low'])})"


def flatdim(sp):
    k = sp["kind"]
    return sp["n"] if k in ("discrete", "multibinary") else sum(sp["nvec"]) if k == "multidiscrete" else len(sp["low"])


def ncomp(sp):
    k = sp["kind"]
    return 1 if k == "discrete" else len(sp["nvec"]) if k == "multidiscrete" else sp["n"] if k == "multibinary" else len(sp["low"])


def segments(sp):
    k = sp["kind"]
    return [sp["n"]] if k == "discrete" else list(sp["nvec"]) if k == "multidiscrete" else None


SCEN = {"fresh": "ScFresh", "reeval": "ScReeval", "stored": "ScStored", "ppo_get": "ScPPOGet", "ppo_eval": "ScPPOEval",
        "ppo_learn": "ScPPOLearn", "ippo_get": "ScFresh", "ippo_learn": "ScIPPOLearn"}
IPPO_IDS = ["a_0", "a_1", "b_0"]
IPPO_IDS2 = ["b_1", "a_0", "b_0", "a_1"]       # unsorted, two policy groups of equal size (first-seen group order: b, a)
KEY_ORDERS = ["canonical", "reversed", "groups-swapped", "within-group-swapped", "sorted", "shuffled"]
# what an actor can go through before it is evaluated: every mutation method it advertises, an activation change, clone()
# of the network and clone() of its distribution head
PREPS = ["add_latent_node", "remove_latent_node", "encoder.add_node", "encoder.remove_node", "head_net.add_layer", "head_net.remove_layer",
         "head_net.add_node", "head_net.remove_node", "change_activation", "clone", "head_clone"]
PPO_PREPS = ["add_latent_node", "remove_latent_node", "encoder.add_node", "head_net.add_node", "head_net.add_layer", "agent_clone"]


# ------------------------------------------------------------------ instrumentation (outside the code under test)
class Tap:
    """records what the logits network returned and what Normal.sample drew, without touching /repo"""

    def __init__(self, actor):
        self.w = actor.head_net.wrapped
        self.logits, self.draws = [], []

    def __enter__(self):
        of = self.w.forward

        def fwd(*a, **k):
            out = of(*a, **k)
            self.logits.append(out.detach().clone())
            return out
        self.w.forward = fwd
        N = torch.distributions.Normal
        self._os, self._or = N.sample, N.rsample
        tap = self

        def smp(d, *a, **k):
            out = tap._os(d, *a, **k)
            tap.draws.append(out.detach().clone())
            return out

        def rsmp(d, *a, **k):
            out = tap._or(d, *a, **k)
            tap.draws.append(out.detach().clone())
            return out
        N.sample, N.rsample = smp, rsmp
        return self

    def __exit__(self, *exc):
        N = torch.distributions.Normal
        N.sample, N.rsample = self._os, self._or
        try:
            del self.w.forward
        except AttributeError:
            pass
        return False


def last_linear(mod):
    lins = [m for m in torch.nn.Module.modules(mod) if isinstance(m, torch.nn.Linear)]
    return lins[-1]


def f64(t):
    return np.asarray(t.detach().cpu().numpy() if isinstance(t, torch.Tensor) else t, dtype=np.float64)


def rows2(x, B):
    return f64(x).reshape(B, -1).tolist()


# ------------------------------------------------------------------ reference formulas (float64, independent of the Coq model)
def ref_masked(logits, mask):
    lg = np.array(logits, dtype=np.float64)
    if mask is not None:
        lg = np.where(np.array(mask) != 0, lg, BIG)
    return lg


def _lse(v):
    m = np.max(v)
    return m + math.log(np.sum(np.exp(v - m)))


def ref_logprob_row(sp, squash, lg, log_std, a, u=None):
    """lg: masked logits of the row; a: action row (unscaled); u: pre-squash draw if known.
    returns (value, slack)"""
    k = sp["kind"]
    if k in ("discrete", "multidiscrete"):
        tot, off = 0.0, 0
        for n, ai in zip(segments(sp), a):
            seg = lg[off:off + n]
            tot += seg[int(ai)] - _lse(seg)
            off += n
        return tot, sum(E.lse_slack(lg[o:o + n]) for o, n in zip(np.cumsum([0] + segments(sp)[:-1]).tolist(), segments(sp)))
    if k == "multibinary":
        return float(sum(x * l - (max(l, 0.0) + math.log1p(math.exp(-abs(l)))) for l, x in zip(lg, a))), float(2.4e-7 * np.sum(np.where(np.abs(lg) < 1e7, np.abs(lg), 0.0)))
    sig = np.exp(np.array(log_std, dtype=np.float64))
    a = np.array(a, dtype=np.float64)
    if squash:
        x = np.array(u, dtype=np.float64) if u is not None else np.arctanh(np.clip(a, -E.CLAMP_HI, E.CLAMP_HI))
        aa = np.tanh(x) if u is not None else a
    else:
        x, aa = a, a
    lp = float(np.sum(-((x - lg) ** 2) / (2 * sig * sig) - np.log(sig) - 0.5 * math.log(2 * math.pi)))
    sl = float(sum(E.normal_slack(m, s_, x_) for m, s_, x_ in zip(lg, sig, x)))
    if squash and u is None:
        sl += float(sum(E.atanh_slack(m, s_, x_) for m, s_, x_ in zip(lg, sig, x)))
    if squash:
        lp -= float(np.sum(np.log(1.0 - aa * aa + 1e-6)))
        sl += float(np.sum(5e-7 / np.maximum(1.0 - aa * aa + 1e-6, 1e-6)))
    return lp, sl


def ref_entropy_row(sp, lg, log_std):
    k = sp["kind"]
    if k in ("discrete", "multidiscrete"):
        tot, off = 0.0, 0
        for n in segments(sp):
            seg = lg[off:off + n]
            lp = seg - _lse(seg)
            tot += -float(np.sum(np.exp(lp) * lp))
            off += n
        return tot
    if k == "multibinary":
        tot = 0.0
        for l in lg:
            p = 1.0 / (1.0 + math.exp(-l)) if l >= 0 else math.exp(l) / (1.0 + math.exp(l))
            tot += max(l, 0.0) + math.log1p(math.exp(-abs(l))) - l * p
        return tot
    return float(np.sum(0.5 + 0.5 * math.log(2 * math.pi) + np.array(log_std, dtype=np.float64)))


def close(m, o, sl=0.0):
    return math.isfinite(m) and math.isfinite(o) and abs(m - o) <= TOL + TOL * abs(o) + sl


# ------------------------------------------------------------------ the driver
class C16(vlib.Driver):
    pid = "C16"
    preamble = "From Coq Require Import QArith.\nFrom AgileV Require Import C16.Model C16.Check."
    rule = ("cases = (api, scenario, action space, squash, mask pattern, batch, logit/std pattern, seed); distinct = distinct "
            "(api, scenario, space, squash, mask kind, batch, logit mode, std, seed-class) key; non-trivial = mask not all-ones, "
            "or batch > 1, or a tie among the logits (DESIGN 8.21b)")
    trusted_base = ["hand-written symbolic model coq/theories/C16/Model.v and scenario/skeleton evaluator C16/Check.v",
                    "harness/c16_eval.py: parser of the formulas printed by Coq and float64 evaluator of the primitive atoms "
                    "(NormalLogPdf, LogSoftmaxAt, BernLogP, entropies, tanh/atanh/clamp, Log1mSq, Scale, MaskFill)",
                    "harness/c16.py: instance-level tap on the logits network's forward and on torch.distributions.Normal.sample "
                    "(recording only), reference float64 formulas of the oracle"]
    assumptions = ["the change-of-variables formula for tanh-squashed Gaussians is taken as the definition of the density (spec_logprob_row)",
                   "float32 evaluation of the primitives by torch agrees with float64 within 1e-4 abs/rel, plus the stated conditioning slack of log(1-a^2+1e-6) near |a|=1 and of (x-mu)/sigma when |x|,|mu| >> sigma",
                   "the outcome of torch.equal(tanh(sampled), action) on a stored tensor is an input of the model (it is true only when tanh saturates to the same +-1 values)",
                   "exp(-1e8 - logsumexp) underflows to exactly 0 in float32 (masked actions)",
                   "atanh(clamp(tanh x)) = x (hypothesis of logprob_is_spec_fresh; numerically valid for |x| < 8.3 in float32)",
                   "rows in which every action is masked are outside the property (generator keeps >= 1 legal action per categorical)"]
    shard = 60
    notes = ["observation (not a violation of the property as stated): PPO.evaluate_actions / learn() re-evaluate stored actions without the "
             "action mask that was in force during the rollout (masks are not part of the stored experience), so with masks the "
             "re-evaluated log-probability is the one under the unmasked distribution; the model has the same semantics (ppo_evaluate_actions passes no mask)",
             "IPPO is exercised without squashing only (squashed IPPO raises: known finding raises:ippo:ippo_get:box:squash)"]

    def __init__(self):
        self._formulas = {}
        self._pending = None

    # ---------- generation
    def space_grid(self, rng, tier):
        out = []
        for n in ([2, 3, 6] if tier == "quick" else [2, 3, 4, 5, 6]):
            out.append({"kind": "discrete", "n": n})
        for nv in ([[2], [3, 2], [2, 4, 3]] if tier == "quick" else [[2], [4], [3, 2], [2, 2], [2, 4, 3], [3, 3, 2]]):
            out.append({"kind": "multidiscrete", "nvec": nv})
        for n in ([1, 2, 4] if tier == "quick" else [1, 2, 3, 4]):
            out.append({"kind": "multibinary", "n": n})
        for d in ([1, 2, 4] if tier == "quick" else [1, 2, 3, 4]):
            lo = [rng.choice([-1.0, -2.0, -0.5, 0.0]) for _ in range(d)]
            hi = [l + rng.choice([1.0, 2.0, 4.0]) for l in lo]
            out.append({"kind": "box", "low": lo, "high": hi})
        return out

    def generate(self, tier, rng):
        cases = []
        reps = 1 if tier == "quick" else 6
        actor_reps = 2 if tier == "quick" else 4          # actor-level cases are cheap (no agent construction)
        for rep in range(reps):
            for sp in self.space_grid(rng, tier):
                box = sp["kind"] == "box"
                for api, scen, variant in [("actor", "fresh", ""), ("actor", "reeval", ""), ("actor", "stored", "same"),
                                           ("actor", "stored", "other")] * actor_reps + [("ppo", "ppo_get", ""), ("ppo", "ppo_eval", "same"),
                                           ("ppo", "ppo_eval", "other")]:
                    for flag in (False, True):
                        squash = flag if box else (rng.random() < 0.15)     # squash requested on a non-Box space is ignored by the code
                        masked = (not box) and flag
                        c = {"api": api, "scenario": scen, "variant": variant, "space": sp, "squash": squash, "masked": masked,
                             "B": rng.choice([1, 2, 3, 4, 5]), "seed": rng.randrange(10 ** 6),
                             "logit_mode": rng.choice(["net", "net", "scaled", "bias", "ties"]),
                             "std_init": rng.choice([-1.0, 0.0, 0.5]), "std_perturb": rng.random() < 0.5,
                             "mask_kind": rng.choice(["partial", "partial", "single", "ones"]) if masked else "none",
                             "partial_cfg": rng.random() < 0.3}
                        if masked and api == "actor" and rng.random() < 0.2:
                            c["mask_fmt"] = "list"
                        if rng.random() < 0.2:
                            c["obs_kind"] = rng.choice(["image", "dict", "discrete"])
                            c["partial_cfg"] = True
                        cases.append(c)
            # learn() paths: what PPO / IPPO do with the stored actions of a rollout
            for sp in self.space_grid(rng, tier):
                box = sp["kind"] == "box"
                for api, scen in [("ppo", "ppo_learn"), ("ippo", "ippo_get"), ("ippo", "ippo_learn")]:
                    for flag in (False, True):
                        squash = flag and box and api == "ppo"        # IPPO cannot be run with squashing (see design.d/C16.md)
                        masked = (not box) and flag and scen == "ippo_get"
                        sp2 = sp
                        if api == "ippo" and box:        # IPPO asserts max action > 0
                            sp2 = {"kind": "box", "low": [-abs(x) - 1.0 for x in sp["low"]], "high": [abs(x) + 0.5 for x in sp["high"]]}
                        T, Ee = rng.choice([2, 3]), rng.choice([1, 2])
                        nrows = {"ppo_learn": T * Ee, "ippo_get": len(IPPO_IDS2) * Ee, "ippo_learn": 2 * T * Ee}[scen]
                        cases.append({"api": api, "scenario": scen, "variant": "", "space": sp2, "squash": squash, "masked": masked,
                                      "B": nrows, "T": T, "E": Ee, "seed": rng.randrange(10 ** 6), "logit_mode": rng.choice(["net", "scaled"]),
                                      "std_init": rng.choice([0.0, 0.5]), "std_perturb": rng.random() < 0.5,
                                      "mask_kind": rng.choice(["partial", "single"]) if masked else "none", "partial_cfg": False})
                        if api == "ippo":      # two equal-sized policy groups, unsorted ids, caller-chosen key orders of obs / infos / experiences
                            cases[-1].update({"ids": list(IPPO_IDS2), "okey": rng.choice(KEY_ORDERS), "ikey": rng.choice(KEY_ORDERS)})
                # IPPO with masks: every combination class of key orders at least once per space kind (boundary-complete)
                if not box:
                    for ik in KEY_ORDERS:
                        Ee = rng.choice([1, 2])
                        cases.append({"api": "ippo", "scenario": "ippo_get", "variant": "", "space": sp, "squash": False, "masked": True,
                                      "B": len(IPPO_IDS2) * Ee, "T": 2, "E": Ee, "seed": rng.randrange(10 ** 6), "logit_mode": "net",
                                      "std_init": 0.0, "std_perturb": False, "mask_kind": rng.choice(["partial", "single", "single"]),
                                      "partial_cfg": False, "ids": list(IPPO_IDS2), "okey": rng.choice(KEY_ORDERS), "ikey": ik})
            # actors that went through architecture mutations / clone() BEFORE they are evaluated (recreate_network, preserve_parameters,
            # clone re-build the EvolvableDistribution: squash flag, log_std and masks must survive)
            for sp in self.space_grid(rng, tier):
                box = sp["kind"] == "box"
                for flag in (False, True):
                    squash, masked = (flag if box else rng.random() < 0.15), ((not box) and flag)
                    preps = list(PREPS) if (box and squash) else rng.sample(PREPS, 3 if tier == "quick" else 6)
                    for k, prep in enumerate(preps):
                        scen, variant = [("fresh", ""), ("stored", "other"), ("reeval", ""), ("stored", "same")][(k + rep) % 4]
                        cases.append({"api": "actor", "scenario": scen, "variant": variant, "space": sp, "squash": squash, "masked": masked,
                                      "B": rng.choice([2, 3, 4]), "seed": rng.randrange(10 ** 6), "logit_mode": rng.choice(["net", "scaled"]),
                                      "std_init": rng.choice([-1.0, 0.0, 0.5]), "std_perturb": True,
                                      "mask_kind": rng.choice(["partial", "single"]) if masked else "none",
                                      "partial_cfg": rng.random() < 0.3, "prep": [prep] if rng.random() < 0.7 else [prep, rng.choice(PREPS)]})
                    # clone -> mutate -> clone chains, and latent_dim next to its bounds (126+8 >= 128: refused; 120+8: accepted; 8-8: refused)
                    for chain, ld in ([(["clone", "add_latent_node", "clone"], None), (["head_clone", "clone"], None),
                                       (["add_latent_node"], 126), (["add_latent_node", "remove_latent_node"], 112), (["remove_latent_node"], 8),
                                       (["remove_latent_node", "clone"], 24)] if (box and squash) or rng.random() < 0.25 else []):
                        cases.append({"api": "actor", "scenario": rng.choice(["fresh", "stored"]), "variant": "other", "space": sp, "squash": squash,
                                      "masked": masked, "B": rng.choice([1, 2, 3]), "seed": rng.randrange(10 ** 6), "logit_mode": "net",
                                      "std_init": rng.choice([-1.0, 0.5]), "std_perturb": True, "mask_kind": "partial" if masked else "none",
                                      "partial_cfg": False, "prep": chain, "latent_dim": ld})
                    if (box and squash) or rng.random() < 0.25:
                        cases.append({"api": "ppo", "scenario": "ppo_eval", "variant": "other", "space": sp, "squash": squash, "masked": masked,
                                      "B": 3, "seed": rng.randrange(10 ** 6), "logit_mode": "net", "std_init": 0.5, "std_perturb": True,
                                      "mask_kind": "partial" if masked else "none", "partial_cfg": False,
                                      "prep": ["agent_clone", "add_latent_node", "agent_clone"], "latent_dim": rng.choice([None, 120])})
                    ppreps = list(PPO_PREPS) if (box and squash) else rng.sample(PPO_PREPS, 1 if tier == "quick" else 3)
                    for k, prep in enumerate(ppreps):
                        scen, variant = [("ppo_get", ""), ("ppo_eval", "other")][(k + rep) % 2]
                        cases.append({"api": "ppo", "scenario": scen, "variant": variant, "space": sp, "squash": squash, "masked": masked,
                                      "B": rng.choice([2, 3, 4]), "seed": rng.randrange(10 ** 6), "logit_mode": "net",
                                      "std_init": rng.choice([0.0, 0.5]), "std_perturb": True,
                                      "mask_kind": rng.choice(["partial", "single"]) if masked else "none", "partial_cfg": False, "prep": [prep]})
            # round-3 classes: in-place edited / other-dtype stored actions, another policy used in between (shared handler objects),
            # a raising call caught by the caller followed by further use, learn() called again on the same rollout
            for sp in self.space_grid(rng, tier):
                box = sp["kind"] == "box"
                for twist in ("interleave", "after_raise", "dtype", "edit_in_place"):
                    if twist == "edit_in_place" and not box:
                        continue
                    for flag in (False, True):
                        squash, masked = (flag if box else False), ((not box) and flag)
                        api, scen = rng.choice([("actor", "stored"), ("actor", "stored"), ("ppo", "ppo_eval")]) if twist == "dtype" else ("actor", "stored")
                        cases.append({"api": api, "scenario": scen, "variant": "other", "space": sp, "squash": squash, "masked": masked,
                                      "B": rng.choice([2, 3, 4]), "seed": rng.randrange(10 ** 6), "logit_mode": rng.choice(["net", "scaled"]),
                                      "std_init": rng.choice([0.0, 0.5]), "std_perturb": True, "mask_kind": "partial" if masked else "none",
                                      "partial_cfg": False, "twist": twist})
                for api, scen in (("actor", "fresh"), ("actor", "stored"), ("ppo", "ppo_get")):
                    sp2 = dict(sp, dtype="float64") if (box and scen != "stored") else sp
                    cases.append({"api": api, "scenario": scen, "variant": "other", "space": sp2, "squash": box and rng.random() < 0.5, "masked": not box,
                                  "B": rng.choice([2, 3]), "seed": rng.randrange(10 ** 6), "logit_mode": "huge", "std_init": 0.0, "std_perturb": False,
                                  "mask_kind": "partial" if not box else "none", "partial_cfg": False,
                                  "obs_dtype": "float64" if api == "ppo" else None})
                cases.append({"api": "ppo", "scenario": "ppo_learn", "variant": "", "space": sp, "squash": box and rng.random() < 0.5, "masked": False,
                              "B": 4, "T": 2, "E": 2, "seed": rng.randrange(10 ** 6), "logit_mode": "net", "std_init": 0.5, "std_perturb": True,
                              "mask_kind": "none", "partial_cfg": False, "learn_twice": True})
            # extreme but legal standard deviations (e^-25 ... e^5): from the constructor argument and as a "trained" parameter, per-dimension mixes
            for sp in self.space_grid(rng, tier):
                if sp["kind"] != "box":
                    continue
                for squash in (False, True):
                    for api, scen, variant in [("actor", "fresh", ""), ("actor", "reeval", ""), ("actor", "stored", "other"), ("ppo", "ppo_get", ""),
                                               ("ppo", "ppo_eval", "other"), ("ppo", "ppo_learn", "")]:
                        ext = rng.choice([-25.0, -5.0, 2.5, 5.0])
                        how = rng.choice(["init", "set", "mix"])
                        T, Ee = rng.choice([2, 3]), rng.choice([1, 2])
                        c = {"api": api, "scenario": scen, "variant": variant, "space": sp, "squash": squash, "masked": False,
                             "B": T * Ee if scen == "ppo_learn" else rng.choice([2, 3, 4]), "T": T, "E": Ee, "seed": rng.randrange(10 ** 6),
                             "logit_mode": rng.choice(["net", "scaled"]), "std_init": ext if how == "init" else rng.choice([0.0, 0.5]),
                             "std_perturb": False, "mask_kind": "none", "partial_cfg": False,
                             "log_std_set": None if how == "init" else ([ext] if how == "set" else rng.sample([-25.0, -5.0, 2.5, 5.0, 0.0], 4))}
                        if rng.random() < 0.3 and api == "actor":
                            c["prep"] = [rng.choice(["clone", "add_latent_node", "head_clone"])]
                        cases.append(c)
            cases.append({"api": "ippo", "scenario": "ippo_get", "variant": "", "space": {"kind": "box", "low": [-1.0, -2.0], "high": [1.0, 2.0]},
                          "squash": True, "masked": False, "B": 3, "T": 2, "E": 1, "seed": rng.randrange(10 ** 6), "logit_mode": "net",
                          "std_init": 0.0, "std_perturb": False, "mask_kind": "none", "partial_cfg": False})
        self._pending = cases
        return cases

    # ---------- implementation
    def make_mask(self, sp, kind, B, g):
        D = flatdim(sp)
        if kind == "ones":
            return np.ones((B, D), dtype=np.int64)
        m = np.zeros((B, D), dtype=np.int64)
        segs = segments(sp)
        for b in range(B):
            if segs is None:        # multibinary: any pattern (a masked bit is forced to 0)
                m[b] = (g.random(D) < 0.5).astype(np.int64)
                continue
            off = 0
            for n in segs:
                if kind == "single":
                    m[b, off + g.integers(n)] = 1
                else:
                    row = (g.random(n) < 0.5).astype(np.int64)
                    row[g.integers(n)] = 1
                    m[b, off:off + n] = row
                off += n
        return m

    def build_actor(self, case, g):
        sp = case["space"]
        kw = {} if case["partial_cfg"] else {"encoder_config": {"hidden_size": [8]}, "head_config": {"hidden_size": [8]}}
        okind = case.get("obs_kind", "vector")
        obs_space = obs_space_of(okind)
        if okind != "vector":       # default encoder of that observation kind (CNN / multi-input / one-hot MLP)
            kw = {"head_config": {"hidden_size": [8]}}
        if case.get("latent_dim"):       # latent dimension next to its configured bound (add/remove_latent_node guards)
            kw = dict(kw, latent_dim=case["latent_dim"])
        if case["api"] == "actor":
            actor = StochasticActor(obs_space, gym_space(sp), squash_output=case["squash"],
                                    action_std_init=case["std_init"], **kw)
            agent = None
        else:
            from agilerl.algorithms.ppo import PPO
            nc = {"squash_output": case["squash"], "encoder_config": {"hidden_size": [8]}, "head_config": {"hidden_size": [8]}}
            if case["partial_cfg"] and not case["squash"]:
                nc = {"encoder_config": {"hidden_size": [8]}}
            if okind != "vector":
                nc = {"squash_output": case["squash"], "head_config": {"hidden_size": [8]}}
            if case.get("latent_dim"):
                nc["latent_dim"] = case["latent_dim"]
            agent = PPO(obs_space, gym_space(sp), net_config=nc, action_std_init=max(case["std_init"], 0.0),
                        share_encoders=bool(case["seed"] % 2))
            actor = agent.actor
            if case["std_init"] < 0 and sp["kind"] == "box":      # PPO refuses a negative initial value; a trained log_std may be negative
                with torch.no_grad():
                    actor.head_net.log_std.fill_(case["std_init"])
        lin = last_linear(actor.head_net.wrapped)
        mode = case["logit_mode"]
        with torch.no_grad():
            if mode == "scaled":
                lin.weight.mul_(float(g.choice([4.0, 12.0])))
                lin.bias.add_(torch.as_tensor(g.normal(0, 2, lin.bias.shape), dtype=torch.float32))
            elif mode in ("bias", "ties", "huge"):
                lin.weight.zero_()
                vals = g.choice([-20.0, -3.0, -1.0, 0.0, 0.5, 2.0, 15.0], size=lin.bias.shape[0])
                if mode == "huge":      # extreme but legal magnitudes of the network output
                    vals = g.choice([-1e4, -1e3, 0.0, 1e3, 1e4], size=lin.bias.shape[0])
                if mode == "ties":
                    vals = np.full(lin.bias.shape[0], float(g.choice([0.0, 1.5])))
                lin.bias.copy_(torch.as_tensor(vals, dtype=torch.float32))
            if sp["kind"] == "box" and case["std_perturb"]:
                actor.head_net.log_std.add_(torch.as_tensor(g.normal(0, 0.4, actor.head_net.log_std.shape), dtype=torch.float32))
        if sp["kind"] == "box" and case.get("log_std_set") is not None:      # a trained / checkpointed log_std far from its initial value
            with torch.no_grad():
                v = list(case["log_std_set"])
                d = actor.head_net.log_std.shape[-1]
                actor.head_net.log_std.copy_(torch.tensor([(v * d)[:d]], dtype=torch.float32))
        self._prep_info = None
        if case.get("prep"):
            agent, actor = self.apply_prep(case, agent, actor)
        return agent, actor

    def apply_prep(self, case, agent, actor):
        """architecture mutations / clones applied to a built (and tweaked) actor before it is observed"""
        box = case["space"]["kind"] == "box"
        before = actor.head_net.log_std.detach().clone() if box else None
        advertised = list(actor.mutation_methods)
        done = []

        def call(net, name, **kw):
            obj = net
            parts = name.split(".")
            for q in parts[:-1]:
                obj = getattr(obj, q)
            return getattr(obj, parts[-1])(**kw)
        order = list(case["prep"])
        if "head_clone" in order and any(("." in q or "latent" in q) for q in order[order.index("head_clone") + 1:]):
            order = [q for q in order if q != "head_clone"] + ["head_clone"]
        for prep in order:      # (a cloned EvolvableDistribution no longer advertises the head's mutation methods, so head_clone goes last)
            if prep == "clone":
                actor = actor.clone()
            elif prep == "head_clone":
                actor.head_net = actor.head_net.clone()
            elif prep == "agent_clone":
                agent = agent.clone()
                actor = agent.actor
            elif prep == "change_activation":      # (StochasticActor.change_activation itself raises NotImplementedError: the wrapper lacks it)
                act = "Tanh" if case["seed"] % 2 else "ELU"
                actor.encoder.change_activation(act, output=True)
                actor.head_net.wrapped.change_activation(act, output=False)
            else:
                if prep not in advertised:
                    raise RuntimeError(f"the actor no longer advertises mutation method {prep}: {advertised}")
                ret = call(actor, prep)
                if agent is not None:       # what Mutations does: same mutation on the critic where it applies, then the hook
                    if not prep.startswith("head_net"):
                        try:
                            call(agent.critic, prep, **(ret if isinstance(ret, dict) else {}))
                        except TypeError:
                            call(agent.critic, prep)
                    agent.mutation_hook()
            done.append(prep)
        after = actor.head_net.log_std.detach().clone() if box else None
        self._prep_info = {"done": done, "advertised": advertised,
                           "log_std_kept": (bool(torch.equal(before, after)) if box else True),
                           "log_std_before": (f64(before).reshape(-1).tolist() if box else None)}
        return agent, actor

    def run_impl(self, case):
        sp, B, scen = case["space"], case["B"], case["scenario"]
        torch.manual_seed(case["seed"])
        np.random.seed(case["seed"] % (2 ** 31))
        random.seed(case["seed"])
        g = np.random.default_rng(case["seed"])
        if scen == "ppo_learn":
            return self.run_ppo_learn(case, g)
        if case["api"] == "ippo":
            return self.run_ippo(case, g)
        agent, actor = self.build_actor(case, g)
        box = sp["kind"] == "box"
        sq = case["squash"] and box
        D = flatdim(sp)
        okind = case.get("obs_kind", "vector")
        obs1 = sample_obs(okind, B, g)
        if case.get("obs_dtype") == "float64" and okind == "vector":      # float64 observations (values float32 cannot represent exactly)
            obs1 = obs1.astype(np.float64) + 1e-9
        obs2 = obs1 if case["variant"] != "other" else sample_obs(okind, B, g)
        T_ = lambda o: to_net(okind, o)
        m1 = self.make_mask(sp, case["mask_kind"], B, g) if case["masked"] else None
        m2 = (m1 if case["variant"] != "other" else self.make_mask(sp, case["mask_kind"], B, g)) if case["masked"] else None
        env, out, hit = {}, {}, False

        def fmt(m, k):      # the container types forward() accepts: int array, bool array, tensor, python list of per-row masks
            if m is None:
                return None
            if case.get("mask_fmt") == "list":
                return [np.array(r) for r in m]
            return [m, m.astype(bool), torch.as_tensor(m), m.astype(np.float32), m.astype(np.uint8)][(case["seed"] + k) % 5]
        if box:
            env["log_std"] = rows2(actor.head_net.log_std, 1)
            env["low"], env["high"] = [list(map(float, sp["low"]))], [list(map(float, sp["high"]))]
        if m1 is not None:
            env["mask"], env["mask2"] = m1.tolist(), m2.tolist()

        def unscaled_rows(a):
            return rows2(a, B)

        def draws_or(tap, idx, a_unscaled):
            """pre-squash draw of forward number idx: recorded Normal draw, else atanh of the squashed action"""
            if not sq:
                return rows2(a_unscaled, B)
            if len(tap.draws) > idx:
                return rows2(tap.draws[idx], B)
            return np.arctanh(np.clip(f64(a_unscaled).reshape(B, -1), -E.CLAMP_HI, E.CLAMP_HI)).tolist()

        def logits_or(tap, idx, obs):
            if len(tap.logits) > idx:
                return rows2(tap.logits[idx], B)
            with torch.no_grad():
                return rows2(actor.head_net.wrapped(actor.extract_features(T_(obs))), B)

        def unscale(a_scaled):
            lo, hi = np.array(sp["low"]), np.array(sp["high"])
            return (2.0 * (f64(a_scaled).reshape(B, -1) - lo) / (hi - lo) - 1.0)

        try:
            return self._observe(case, agent, actor, tap_cls=Tap, ctx=locals())
        except Exception as e:
            if case.get("mask_fmt") == "list" and case["masked"]:      # the code under test raised on a list-valued mask
                return {"env": env, "out": {}, "raised": f"{type(e).__name__}: {e}"}
            if case.get("twist") in ("after_raise", "interleave", "dtype", "edit_in_place"):      # legal use of the API that raised
                return {"env": env, "out": {}, "raised": f"{type(e).__name__}: {e}"}
            raise

    def _observe(self, case, agent, actor, tap_cls, ctx):
        sp, B, scen = case["space"], case["B"], case["scenario"]
        box = sp["kind"] == "box"
        sq = case["squash"] and box
        env, out, hit = ctx["env"], ctx["out"], False
        fmt, T_, m1, m2, obs1, obs2 = ctx["fmt"], ctx["T_"], ctx["m1"], ctx["m2"], ctx["obs1"], ctx["obs2"]
        draws_or, logits_or, unscale = ctx["draws_or"], ctx["logits_or"], ctx["unscale"]
        W = ArgWatch()
        twist = case.get("twist")
        with tap_cls(actor) as tap, torch.no_grad():
            if scen == "fresh":
                a, lp, ent = actor(W.give("obs", T_(obs1)), W.give("mask", fmt(m1, 0)))
                env["logit"] = logits_or(tap, 0, obs1)
                au = unscale(a) if sq else a
                env["sampled"] = draws_or(tap, 0, au)
                out["act"] = f64(a).reshape(-1).tolist()
                out["lp"] = f64(lp).reshape(-1).tolist()
                out["ent"] = [] if ent is None else f64(ent).reshape(-1).tolist()
                out["lp_shape"] = list(lp.shape)
                # log-probability the policy assigns to an illegal action of each row (public API)
                if m1 is not None and sp["kind"] != "multibinary":
                    ill = self.illegal_actions(sp, m1)
                    if ill is not None:
                        t = torch.as_tensor(np.array(ill["a"]), dtype=a.dtype).reshape(a.shape)
                        out["lp_illegal"] = f64(actor.action_log_prob(t)).reshape(-1).tolist()
                        out["illegal_rows"] = ill["rows"]
            elif scen == "reeval":
                latent = actor.extract_features(T_(obs1))
                a, lp, ent = actor.head_net.forward(latent, fmt(m1, 1))
                lp2 = actor.action_log_prob(a)
                env["logit"] = logits_or(tap, 0, obs1)
                env["sampled"] = draws_or(tap, 0, a)
                out["lp"] = f64(lp).reshape(-1).tolist()
                out["lp2"] = f64(lp2).reshape(-1).tolist()
            elif scen == "stored":
                latent = actor.extract_features(T_(obs1))
                a, _, _ = actor.head_net.forward(latent, W.give("mask1", fmt(m1, 0)))        # what a rollout stores (PPO: forward_head)
                stored = a.clone()
                if twist == "edit_in_place" and box:        # the caller edits the very tensor forward() returned (no copy)
                    stored = a
                    stored.mul_(0.5)
                if twist == "dtype" and not sq:             # a rollout buffer that keeps actions in another numeric type
                    stored = stored.double() if (box or sp["kind"] == "multibinary") else stored.to(torch.int32)
                a2, _, _ = actor(W.give("obs2", T_(obs2)), W.give("mask2", fmt(m2, 1)))
                if twist == "interleave":                   # another policy of the same kind is used in between (shared handler objects)
                    other = StochasticActor(obs_space_of(case.get("obs_kind", "vector")), gym_space(sp), squash_output=case["squash"],
                                            action_std_init=0.3, head_config={"hidden_size": [8]})
                    other(T_(obs2), fmt(m2, 0))
                    other.action_log_prob(other.head_net.forward(other.extract_features(T_(obs1)), fmt(m1, 0))[0])
                if twist == "after_raise":                  # a call that raises (malformed mask), caught by the caller; the actor is used further
                    try:
                        actor(T_(obs2), np.ones((B, flatdim(sp) + 1), dtype=np.int64))
                        out["bad_mask_accepted"] = True
                    except Exception:
                        pass
                lp2 = actor.action_log_prob(W.give("stored-action", stored))
                out["lp2_again"] = f64(actor.action_log_prob(stored)).reshape(-1).tolist()
                env["logit"] = logits_or(tap, 0, obs1)
                env["logit2"] = logits_or(tap, 1, obs2)
                env["sampled"] = draws_or(tap, 0, a)
                env["sampled2"] = draws_or(tap, 1, unscale(a2) if sq else a2)
                env["action"] = rows2(stored, B)
                out["lp2"] = f64(lp2).reshape(-1).tolist()
                out["lp_shape"] = list(lp2.shape)
                hit = bool(sq and len(tap.draws) >= 2 and tap.draws[1].shape == stored.shape
                           and torch.equal(torch.tanh(tap.draws[1]), stored))
            elif scen in ("ppo_get", "ppo_eval"):
                agent.set_training_mode(True) if hasattr(agent, "set_training_mode") else None
                a, lp, ent, _ = agent.get_action(W.give("obs", obs1), action_mask=W.give("mask", m1))
                env["logit"] = logits_or(tap, 0, obs1)
                a_t = np.asarray(a).reshape(B, -1) if sp["kind"] != "discrete" else np.asarray(a).reshape(B)
                env["sampled"] = draws_or(tap, 0, a_t)
                if scen == "ppo_get":
                    out["act"] = f64(a).reshape(-1).tolist()
                    out["lp"] = f64(lp).reshape(-1).tolist()
                    out["ent"] = f64(ent).reshape(-1).tolist()
                    out["lp_shape"] = list(np.shape(lp))
                else:
                    stored = torch.as_tensor(a_t)
                    out["lp_rollout"] = f64(lp).reshape(-1).tolist()
                    if twist == "dtype" and not sq:
                        stored = stored.double() if (box or sp["kind"] == "multibinary") else stored.to(torch.int32)
                    lp2, ent2, _ = agent.evaluate_actions(W.give("obs2", obs2), W.give("stored-action", stored))
                    env["logit2"] = logits_or(tap, 1, obs2)
                    nd = len(tap.draws)
                    env["sampled2"] = rows2(tap.draws[-1], B) if (sq and nd >= 2) else [[0.0] * ncomp(sp)] * B
                    env["action"] = rows2(stored, B)
                    out["lp2"] = f64(lp2).reshape(-1).tolist()
                    out["ent2"] = f64(ent2).reshape(-1).tolist()
                    out["lp_shape"] = list(lp2.shape)
                    hit = bool(sq and nd >= 2 and tap.draws[-1].shape == stored.shape
                               and torch.equal(torch.tanh(tap.draws[-1]), stored))
            else:
                raise ValueError(scen)
        out["args_modified"] = W.modified()
        return {"env": env, "out": out, "hit": hit, "prep": self._prep_info}

    def tweak_head(self, actor, case, g):
        lin = last_linear(actor.head_net.wrapped)
        with torch.no_grad():
            if case["logit_mode"] == "scaled":
                lin.weight.mul_(float(g.choice([4.0, 12.0])))
                lin.bias.add_(torch.as_tensor(g.normal(0, 2, lin.bias.shape), dtype=torch.float32))
            if case["space"]["kind"] == "box" and case["std_perturb"]:
                actor.head_net.log_std.add_(torch.as_tensor(g.normal(0, 0.4, actor.head_net.log_std.shape), dtype=torch.float32))
            if case["space"]["kind"] == "box" and case.get("log_std_set") is not None:
                v = list(case["log_std_set"])
                d = actor.head_net.log_std.shape[-1]
                actor.head_net.log_std.copy_(torch.tensor([(v * d)[:d]], dtype=torch.float32))

    def run_ppo_learn(self, case, g):
        """a real rollout with get_action, then the real learn(); evaluate_actions is observed from outside"""
        from agilerl.algorithms.ppo import PPO
        sp, T, Ee = case["space"], case["T"], case["E"]
        n = T * Ee
        box = sp["kind"] == "box"
        sq = case["squash"] and box
        obs_space = spaces.Box(-1.0, 1.0, (OBS_DIM,), dtype=np.float32)
        nc = {"squash_output": case["squash"], "encoder_config": {"hidden_size": [8]}, "head_config": {"hidden_size": [8]}}
        agent = PPO(obs_space, gym_space(sp), net_config=nc, action_std_init=max(case["std_init"], 0.0), batch_size=n, update_epochs=1,
                    share_encoders=bool(case["seed"] % 2))
        actor = agent.actor
        if case["std_init"] < 0 and box:
            with torch.no_grad():
                actor.head_net.log_std.fill_(case["std_init"])
        self.tweak_head(actor, case, g)
        S, A, LP, R, D, V = [], [], [], [], [], []
        rollout_actions = []
        for t in range(T):
            o = g.uniform(-1, 1, (Ee, OBS_DIM)).astype(np.float32)
            if Ee == 1:
                a, lp, ent, v = agent.get_action(o[0])
                S.append(o[0]); A.append(a[0]); LP.append(lp[0]); R.append(1.0); D.append(0.0); V.append(v[0])
            else:
                a, lp, ent, v = agent.get_action(o)
                S.append(o); A.append(a); LP.append(lp); R.append(np.ones(Ee)); D.append(np.zeros(Ee)); V.append(v)
            rollout_actions.append(np.asarray(a, dtype=np.float64).reshape(Ee, -1))
        nxt = g.uniform(-1, 1, (Ee, OBS_DIM)).astype(np.float32)
        calls = []
        orig = agent.evaluate_actions
        with Tap(actor) as tap:
            def wrapped(obs, actions):
                k = len(tap.logits)
                out = orig(obs=obs, actions=actions)
                calls.append({"logits": tap.logits[k].clone() if len(tap.logits) > k else None,
                              "draw": tap.draws[-1].clone() if tap.draws else None,
                              "obs": obs.detach().clone() if isinstance(obs, torch.Tensor) else obs,
                              "actions": actions.detach().clone(), "lp": out[0].detach().clone(), "ent": out[1].detach().clone(),
                              "log_std": actor.head_net.log_std.detach().clone() if box else None})
                return out
            agent.evaluate_actions = wrapped
            try:
                exp = (S, A, LP, R, D, V, nxt if Ee > 1 else nxt[0], np.zeros(Ee) if Ee > 1 else 0.0)
                exp0 = snap(list(exp))
                agent.learn(exp)
                first_n = len(calls)
                if case.get("learn_twice"):      # the training function called again on the same rollout (a second epoch of the caller)
                    agent.learn(exp)
                exp_changed = not unchanged(list(exp), exp0)
            except Exception as e:      # the code under test raised: reported by the oracle, with the input
                return {"env": {}, "out": {}, "raised": f"{type(e).__name__}: {e}"}
            finally:
                del agent.evaluate_actions
        if not calls:
            raise RuntimeError("learn() did not call evaluate_actions")
        c = calls[first_n] if (case.get("learn_twice") and len(calls) > first_n) else calls[0]
        mb = c["lp"].shape[0] if c["lp"].dim() > 0 else 1
        acts = f64(c["actions"])
        lg = c["logits"]
        if lg is None:
            with torch.no_grad():
                lg = actor.head_net.wrapped(actor.extract_features(agent.preprocess_observation(c["obs"])))
        env = {"logit2": rows2(lg, lg.shape[0]), "action": acts.reshape(lg.shape[0], -1).tolist(),
               "logit": rows2(lg, lg.shape[0]), "sampled": acts.reshape(lg.shape[0], -1).tolist(),
               "sampled2": acts.reshape(lg.shape[0], -1).tolist()}
        if box:
            env["log_std"] = rows2(c["log_std"], 1)                # as it was during the call (the optimizer step changes it)
            env["low"], env["high"] = [list(map(float, sp["low"]))], [list(map(float, sp["high"]))]
        out = {"lp2": f64(c["lp"]).reshape(-1).tolist(), "ent2": f64(c["ent"]).reshape(-1).tolist(),
               "lp_shape": list(c["lp"].shape), "rows": int(lg.shape[0]), "actions_shape": list(c["actions"].shape),
               "args_modified": ["the rollout handed to learn()"] if exp_changed else []}
        hit = False
        if sq and c["draw"] is not None:
            env["sampled2"] = rows2(c["draw"], lg.shape[0])
            hit = bool(c["draw"].shape == c["actions"].shape and torch.equal(torch.tanh(c["draw"]), c["actions"]))
        return {"env": env, "out": out, "hit": hit}

    def run_ippo(self, case, g):
        from agilerl.algorithms.ippo import IPPO
        sp, T, Ee, scen = case["space"], case["T"], case["E"], case["scenario"]
        box = sp["kind"] == "box"
        obs_space = spaces.Box(-1.0, 1.0, (OBS_DIM,), dtype=np.float32)
        IDS = list(case.get("ids") or IPPO_IDS)
        nids = len(IDS)
        nsamp = 2 * T * Ee
        if case["squash"]:      # net_config cannot carry squash_output for IPPO (the critic rejects the key): pass the networks
            from agilerl.networks.value_networks import ValueNetwork
            kw = {"encoder_config": {"hidden_size": [8]}, "head_config": {"hidden_size": [8]}}
            agent = IPPO([obs_space] * nids, [gym_space(sp)] * nids, agent_ids=list(IDS), batch_size=nsamp, update_epochs=1,
                         actor_networks=[StochasticActor(obs_space, gym_space(sp), squash_output=True, action_std_init=case["std_init"], **kw)
                                         for _ in range(2)],
                         critic_networks=[ValueNetwork(obs_space, **kw) for _ in range(2)])
        else:
            agent = IPPO([obs_space] * nids, [gym_space(sp)] * nids, agent_ids=list(IDS), batch_size=nsamp, update_epochs=1,
                         action_std_init=case["std_init"],
                         net_config={"encoder_config": {"hidden_size": [8]}, "head_config": {"hidden_size": [8]}})
        group = {i: agent.shared_agent_ids.index(agent.get_homo_id(i)) for i in IDS}      # policy index of each agent

        def keyed(d, how):
            """the same dictionary with its keys inserted in another order (callers are free to choose it)"""
            ks = list(d)
            if how == "reversed":
                ks = ks[::-1]
            elif how == "groups-swapped":
                ks = sorted(ks, key=lambda i: (-group[i], IDS.index(i)))
            elif how == "within-group-swapped":
                ks = sorted(ks, key=lambda i: (group[i], -IDS.index(i)))
            elif how == "sorted":
                ks = sorted(ks)
            elif how == "shuffled":
                ks = [ks[j] for j in g.permutation(len(ks))]
            return {k: d[k] for k in ks}
        for ac in agent.actors:
            self.tweak_head(ac, case, g)
        if box:      # the formula has one log_std row: both actors get the same (perturbed) value
            with torch.no_grad():
                agent.actors[1].head_net.log_std.copy_(agent.actors[0].head_net.log_std)

        def obs_dict():
            return {i: (g.uniform(-1, 1, (Ee, OBS_DIM)).astype(np.float32) if Ee > 1 else g.uniform(-1, 1, (OBS_DIM,)).astype(np.float32))
                    for i in IDS}

        def logits_of(i, o):
            ac = agent.actors[group[i]]
            with torch.no_grad():
                return rows2(ac.head_net.wrapped(ac.extract_features(torch.as_tensor(np.asarray(o).reshape(-1, OBS_DIM)))), Ee)

        env, out = {}, {}
        if box:
            env["low"], env["high"] = [list(map(float, sp["low"]))], [list(map(float, sp["high"]))]
        if scen == "ippo_get":
            o = obs_dict()
            infos = None
            masks = None
            if case["masked"]:
                masks = {i: self.make_mask(sp, case["mask_kind"], Ee, g) for i in IDS}
                infos = keyed({i: {"action_mask": (masks[i] if Ee > 1 else masks[i][0])} for i in IDS}, case.get("ikey", "canonical"))
            for ac in agent.actors:
                ac.eval()
            lgs = {i: logits_of(i, o[i]) for i in IDS}
            ko = keyed(o, case.get("okey", "canonical"))

            def order_class(keys):
                """how a caller's key order relates to agent_ids: agents of one policy group permuted / groups permuted / neither"""
                within = any([k for k in keys if group[k] == gi] != [k for k in IDS if group[k] == gi] for gi in set(group.values()))
                first = lambda ks: list(dict.fromkeys(group[k] for k in ks))
                return "within-group-permuted" if within else ("groups-permuted" if first(keys) != first(IDS) else "canonical")
            orders = {"obs": list(ko), "infos": list(infos) if infos else None,
                      "infos_class": order_class(list(infos)) if infos else "none", "obs_class": order_class(list(ko))}
            if infos:      # the mask plumbing observed directly: what extract_action_masks hands to each policy (rows encoded as bit numbers)
                def code(m):
                    return int("".join("1" if x else "0" for x in np.asarray(m).reshape(-1)[::-1]), 2)
                try:
                    am = agent.extract_action_masks(infos)
                    vals = list(am.values()) if isinstance(am, dict) else []
                    orders["plumbing"] = {
                        "ids": [[group[i], int(i.rsplit("_", 1)[1])] for i in IDS],
                        "infos": [[[group[i], int(i.rsplit("_", 1)[1])], code(infos[i]["action_mask"])] for i in infos],
                        # get_action zips the VALUES positionally with the actors: position k belongs to policy k
                        "rows": [[k, [code(r) for r in np.asarray(v)]] for k, v in enumerate(vals) if v is not None],
                        # row level: what apply_mask's .view(logits.shape) makes of the stack, one number per (agent, env) row
                        "infos_rows": [[[group[i], int(i.rsplit("_", 1)[1])], [code(r) for r in np.asarray(infos[i]["action_mask"]).reshape(-1, flatdim(sp))]]
                                       for i in infos],
                        "flat_rows": [[k, [code(r) for r in np.asarray(v).reshape(-1, flatdim(sp))]] for k, v in enumerate(vals) if v is not None]}
                except Exception as e:
                    orders["plumbing"] = {"error": f"{type(e).__name__}: {e}"}
            W = ArgWatch()
            W.give("observations", ko)
            W.give("infos", infos)
            try:
                a, lp, ent, _ = agent.get_action(ko, infos)
            except Exception as e:      # the code under test raised: reported by the oracle, with the input
                return {"env": env, "out": {}, "raised": f"{type(e).__name__}: {e}", "orders": orders}
            out["args_modified"] = W.modified()
            env["logit"] = [r for i in IDS for r in lgs[i]]
            if masks is not None:
                env["mask"] = [r for i in IDS for r in masks[i].tolist()]
            acts = [r for i in IDS for r in np.asarray(a[i], dtype=np.float64).reshape(Ee, -1).tolist()]
            env["sampled"] = acts
            if box:
                env["log_std"] = rows2(agent.actors[0].head_net.log_std, 1)
            out["act"] = [x for r in acts for x in r]
            out["lp"] = [x for i in IDS for x in np.asarray(lp[i], dtype=np.float64).reshape(-1).tolist()]
            out["ent"] = [x for i in IDS for x in np.asarray(ent[i], dtype=np.float64).reshape(-1).tolist()]
            return {"env": env, "out": out, "orders": orders}
        # ippo_learn: a real rollout, then learn(); the re-evaluation inside _learn_individual is observed from outside
        keys = ("S", "A", "LP", "R", "Dn", "V")
        ex = {k: {i: [] for i in IDS} for k in keys}
        for t in range(T):
            o = obs_dict()
            a, lp, ent, v = agent.get_action(o)
            for i in IDS:
                ex["S"][i].append(o[i]); ex["A"][i].append(a[i]); ex["LP"][i].append(lp[i]); ex["V"][i].append(v[i])
                ex["R"][i].append(np.ones(Ee) if Ee > 1 else 1.0); ex["Dn"][i].append(np.zeros(Ee) if Ee > 1 else 0.0)
        nxt = obs_dict()
        nd = {i: (np.zeros(Ee) if Ee > 1 else np.zeros(1)) for i in IDS}
        ac0 = agent.actors[0]
        calls, ents = [], []
        with Tap(ac0) as tap:
            orig, ofwd = ac0.action_log_prob, ac0.forward

            def wrapped(actions):
                res = orig(actions)
                calls.append({"logits": tap.logits[-1].clone() if tap.logits else None, "actions": actions.detach().clone(),
                              "lp": res.detach().clone(), "log_std": ac0.head_net.log_std.detach().clone() if box else None,
                              "ent": ents[-1] if ents else None})
                return res

            def fwd(*a, **k):
                res = ofwd(*a, **k)
                ents.append(None if res[2] is None else res[2].detach().clone())
                return res
            ac0.action_log_prob, ac0.forward = wrapped, fwd
            try:
                ko = case.get("okey", "canonical")
                agent.learn(tuple(keyed(x, ko) for x in (ex["S"], ex["A"], ex["LP"], ex["R"], ex["Dn"], ex["V"], nxt, nd)))
            except Exception as e:
                return {"env": env, "out": {}, "raised": f"{type(e).__name__}: {e}"}
            finally:
                del ac0.action_log_prob
                del ac0.forward
        if not calls:
            raise RuntimeError("IPPO.learn did not call action_log_prob on the first actor")
        c = calls[0]
        lg = c["logits"]
        rows = int(lg.shape[0])
        acts = f64(c["actions"])
        env.update({"logit2": rows2(lg, rows), "logit": rows2(lg, rows), "action": acts.reshape(rows, -1).tolist(),
                    "sampled": acts.reshape(rows, -1).tolist(), "sampled2": acts.reshape(rows, -1).tolist()})
        if box:
            env["log_std"] = rows2(c["log_std"], 1)
        out = {"lp2": f64(c["lp"]).reshape(-1).tolist(), "lp_shape": list(c["lp"].shape), "rows": rows,
               "actions_shape": list(c["actions"].shape),
               "ent2": [] if c["ent"] is None else f64(c["ent"]).reshape(-1).tolist()}
        return {"env": env, "out": out}

    def illegal_actions(self, sp, mask):
        """per row an action whose every categorical component is masked where possible"""
        rows, acts = [], []
        for b, mr in enumerate(mask):
            off, a, bad = 0, [], False
            for n in segments(sp):
                seg = mr[off:off + n]
                z = [i for i in range(n) if seg[i] == 0]
                if z:
                    a.append(z[0]); bad = True
                else:
                    a.append(0)
                off += n
            acts.append(a if sp["kind"] != "discrete" else a[0])
            if bad:
                rows.append(b)
        return {"a": acts, "rows": rows} if rows else None

    # ---------- model side
    def cfg_of(self, case, obs=None):
        hit = bool(obs and obs.get("hit"))
        return (SCEN[case["scenario"]], coq_space(case["space"]), "true" if case["squash"] else "false",
                "true" if case["masked"] else "false", case["B"], "true" if hit else "false")

    def cfg_term(self, cfg):
        return f"run_scenario {cfg[0]} {cfg[1]} {cfg[2]} {cfg[3]} {cfg[4]} {cfg[5]}"

    def fetch_formulas(self, cfgs):
        need = [c for c in dict.fromkeys(cfgs) if c not in self._formulas]
        if not need:
            return
        if not getattr(self, "_built", False):
            ok, log = vlib.coq_make(["theories/C16/Model.vo", "theories/C16/Check.vo"])
            if not ok:
                raise RuntimeError("cannot build C16 model: " + log[-1500:])
            self._built = True
        pre = "From Coq Require Import List QArith String.\nImport ListNotations.\nFrom AgileV Require Import C16.Model C16.Check.\nOpen Scope string_scope."
        for k in range(0, len(need), 40):
            chunk = need[k:k + 40]
            vals = vlib.eval_coq(self.pid, pre, [f"outputs_atoms ({self.cfg_term(c)})" for c in chunk], tag=f"formulas_{k // 40}")
            for c, v in zip(chunk, vals):
                parsed = E.parse(v)
                self._formulas[c] = [(E.untuple(p)[0], E.untuple(p)[1]) for p in parsed]

    def coq_term(self, case, obs):
        if self._pending is not None:
            self.fetch_formulas([self.cfg_of(c) for c in self._pending])
            self._pending = None
        if obs.get("raised"):
            return None
        cfg = self.cfg_of(case, obs)
        self.fetch_formulas([cfg])
        outs = self._formulas[cfg]
        env, out = obs["env"], obs["out"]
        data = []
        try:
            for name, entries in outs:
                o = out.get(name)
                if o is None:
                    return "false"
                vals, sl = [], []
                for atoms in entries:
                    vs = [E.evaluate(a, env) for a in atoms]
                    if not all(math.isfinite(v) for v in vs):
                        return "false"
                    vals.append("[" + "; ".join(coq_Q(v) for v in vs) + "]")
                    sl.append(coq_Q(sum(E.slack(a, env) for a in atoms)))
                if not all(math.isfinite(x) for x in o):
                    return "false"
                data.append(f'(n_{name}, ([{"; ".join(vals)}], [{"; ".join(coq_Q(x) for x in o)}], [{"; ".join(sl)}]))')
        except (KeyError, IndexError, ValueError, OverflowError):
            return "false"
        t = f"check_outputs ({self.cfg_term(cfg)}) [{'; '.join(data)}]"
        sup = self.support_term(case, obs)
        t = t + (" && " + sup if sup else "")
        pl = (obs.get("orders") or {}).get("plumbing")
        if pl:
            if "error" in pl:
                return "false"
            ag = lambda a: f"({a[0]}%nat, {a[1]}%nat)"
            t += (" && check_ippo_masks [" + "; ".join(ag(a) for a in pl["ids"]) + "] ["
                  + "; ".join(f"({ag(a)}, {m}%N)" for a, m in pl["infos"]) + "] ["
                  + "; ".join(f"({k}%nat, [" + "; ".join(f"{r}%N" for r in rows) + "])" for k, rows in pl["rows"]) + "]")
            if "flat_rows" in pl:
                t += (" && check_ippo_rows [" + "; ".join(ag(a) for a in pl["ids"]) + "] ["
                      + "; ".join(f"({ag(a)}, [" + "; ".join(f"{m}%N" for m in ms) + "])" for a, ms in pl["infos_rows"]) + "] ["
                      + "; ".join(f"({k}%nat, [" + "; ".join(f"{r}%N" for r in rows) + "])" for k, rows in pl["flat_rows"]) + "]")
        return t

    def support_term(self, case, obs):
        sp, B = case["space"], case["B"]
        out, env = obs["out"], obs["env"]
        if "act" not in out:
            return None
        if sp["kind"] == "box":
            if not (case["squash"] and case["scenario"] == "fresh"):
                return None
            a = np.array(out["act"]).reshape(B, -1)
            return ("in_box [" + "; ".join(coq_Q(x) for x in sp["low"]) + "] [" + "; ".join(coq_Q(x) for x in sp["high"]) + "] ["
                    + "; ".join("[" + "; ".join(coq_Q(x) for x in r) + "]" for r in a.tolist()) + "]")
        a = np.array(out["act"]).reshape(B, -1)
        if not np.all((a == np.round(a)) & (a >= 0) & (a < 4999)):
            return "false"
        mask = env.get("mask") or [[1] * flatdim(sp)] * B
        return (f"support_ok {coq_space(sp)} [" + "; ".join("[" + "; ".join("true" if x else "false" for x in r) + "]" for r in mask)
                + "] [" + "; ".join("[" + "; ".join(str(int(x)) for x in r) + "]%nat" for r in a.tolist()) + "]")

    # ---------- oracle: the property stated directly on what the implementation returned
    def oracle(self, case, obs):
        sp, B, scen = case["space"], case["B"], case["scenario"]
        env, out = obs["env"], obs["out"]
        box = sp["kind"] == "box"
        sq = case["squash"] and box
        vs = []
        one = "1" if (ncomp(sp) == 1 and scen in ("ppo_learn", "ippo_learn")) else ""
        # the site names the preparation; a distribution clone is one site whatever else preceded it
        ptag = "+head_clone" if "head_clone" in (case.get("prep") or []) else (("+" + "+".join(case["prep"])) if case.get("prep") else "")
        site = f"{case['api']}:{scen}{ptag}:{sp['kind']}{one}:{'squash' if (case['squash'] and box) else 'plain'}"
        if obs.get("orders") and obs["orders"]["infos_class"] not in ("none", "canonical"):
            site += ":infos-" + obs["orders"]["infos_class"]
        if case.get("mask_fmt") == "list" and case["masked"]:
            site += ":list-mask"
        if obs.get("raised") and site.endswith(":list-mask"):
            return [Violation("raises", "raises:actor:list-mask", f"a mask given as a Python list of per-row arrays makes forward() raise {obs['raised']} "
                              f"(scenario {scen}, {sp['kind']}); the code announces support for lists (isinstance(action_mask, (np.ndarray, list)))")]
        if obs.get("raised"):
            return [Violation("raises", f"raises:{site}", f"the call raised {obs['raised']} on a valid configuration")]

        def V(clause, detail):
            vs.append(Violation(clause, f"{clause}:{site}", detail))

        ls = env["log_std"][0] if box else None
        pi = obs.get("prep")
        if pi and not pi["log_std_kept"]:
            V("params-kept", f"after {pi['done']} the learned log_std {pi['log_std_before']} became {ls}: the policy's distribution "
              "parameters must survive architecture mutations and clone()")
        if out.get("args_modified"):
            V("args-unmodified", f"the call changed what the caller handed in: {out['args_modified']}")
        if "lp2_again" in out and out["lp2_again"] != out.get("lp2"):
            V("repeatable", f"action_log_prob of the same tensor twice in a row: {out.get('lp2')} then {out['lp2_again']}")
        if out.get("bad_mask_accepted"):
            V("bad-mask", "a mask with one column too many was accepted")
        for name in ("lp", "lp2"):
            if name in out and len(out[name]) != B:
                V("shape", f"{name} has {len(out[name])} entries for a batch of {B} rows (one log-probability per row expected)")
                return vs
        if "lp_shape" in out and out["lp_shape"] != [B]:
            V("shape", f"log-probability tensor has shape {out['lp_shape']}, expected [{B}]")
        # fresh log-probability
        if "lp" in out:
            lg = ref_masked(env["logit"], env.get("mask"))
            for b in range(B):
                a = env["sampled"][b]
                want, sl = ref_logprob_row(sp, sq, lg[b], ls, a, u=a if sq else None)
                if not close(want, out["lp"][b], sl):
                    V("logprob-fresh", f"row {b}: reported log_prob {out['lp'][b]!r}, definition gives {want!r} "
                      f"(logits {lg[b].tolist()}, log_std {ls}, draw/action {a})")
                    break
        # stored / re-evaluated log-probability
        if "lp2" in out:
            if scen == "reeval":
                lg = ref_masked(env["logit"], env.get("mask"))
                acts, us = env["sampled"], (env["sampled"] if sq else None)
            else:
                lg = ref_masked(env["logit2"], env.get("mask2") if scen == "stored" else None)
                # stored tensor bit-identical to tanh of the current draw (saturated tanh): that draw is a preimage of it
                acts, us = env["action"], (env["sampled2"] if (sq and obs.get("hit")) else None)
            for b in range(B):
                want, sl = ref_logprob_row(sp, sq, lg[b], ls, acts[b], u=us[b] if us else None)
                if not close(want, out["lp2"][b], sl):
                    V("logprob-stored", f"row {b}: log_prob of the passed action {acts[b]} reported as {out['lp2'][b]!r}, "
                      f"definition under the current distribution gives {want!r} (logits {lg[b].tolist()}, log_std {ls})")
                    break
        # same policy, same observation, same action: the re-evaluated log-probability must be the one reported at rollout time
        # (not for squashed policies: a saturated stored action +-1 has a whole interval of pre-images, the two values legitimately differ)
        if scen == "ppo_eval" and case["variant"] == "same" and "lp_rollout" in out and "lp2" in out and not case.get("prep") and not sq:
            for b in range(B):
                if not close(out["lp_rollout"][b], out["lp2"][b]):
                    masked_row = bool(env.get("mask")) and (0 in env["mask"][b])
                    vs.append(Violation("reeval-same-policy", f"reeval-same-policy:ppo:ppo_eval:{sp['kind']}:{'masked' if masked_row else 'unmasked'}",
                                        f"row {b}: get_action reported log_prob {out['lp_rollout'][b]!r} for action {env['action'][b]}"
                                        f"{' under mask ' + str(env['mask'][b]) if masked_row else ''}; evaluate_actions on the same observation with the "
                                        f"unchanged policy gives {out['lp2'][b]!r}"))
                    break
        # entropy
        for name, lgname, mname in (("ent", "logit", "mask"), ("ent2", "logit2", None)):
            if name not in out:
                continue
            if sq:
                if case["api"] == "ppo":    # PPO reports -mean(log_prob) when there is no analytic entropy
                    lps = out["lp"] if name == "ent" else out["lp2"]
                    if len(out[name]) != 1 or not close(-float(np.mean(lps)), out[name][0], 1e-5):
                        V("entropy", f"squashed policy: entropy reported {out[name]}, -mean(log_prob) = {-float(np.mean(lps))!r}")
                elif out[name]:
                    V("entropy", f"squashed policy returned an analytic entropy {out[name]}")
                continue
            lg = ref_masked(env[lgname], env.get(mname) if mname else None)
            if len(out[name]) != B:
                V("shape", f"{name} has {len(out[name])} entries for {B} rows")
                continue
            for b in range(B):
                want = ref_entropy_row(sp, lg[b], ls)
                esl = (sum(E.lse_slack(lg[b][o:o + n]) for o, n in zip(np.cumsum([0] + segments(sp)[:-1]).tolist(), segments(sp)))
                       if segments(sp) else (float(2.4e-7 * np.sum(np.where(np.abs(lg[b]) < 1e7, np.abs(lg[b]), 0.0))) if sp["kind"] == "multibinary" else 0.0))
                if not close(want, out[name][b], esl):
                    V("entropy", f"row {b}: reported entropy {out[name][b]!r}, definition gives {want!r} (logits {lg[b].tolist()}, log_std {ls})")
                    break
        # support
        if "act" in out:
            a = np.array(out["act"], dtype=np.float64).reshape(B, -1)
            if box:
                if sq and scen == "fresh":
                    lo, hi = np.array(sp["low"]), np.array(sp["high"])
                    want = lo + 0.5 * (np.tanh(np.array(env["sampled"])) + 1.0) * (hi - lo)
                    if np.any(a < lo - 1e-6) or np.any(a > hi + 1e-6):
                        V("support", f"squashed action {a.tolist()} outside [{sp['low']}, {sp['high']}]")
                    elif not np.allclose(a, want, atol=1e-4, rtol=1e-4):
                        V("support", f"returned action {a.tolist()} is not the scaled tanh of the draw {want.tolist()}")
                elif sq and np.any(np.abs(a) > 1.0):
                    V("support", f"squashed action {a.tolist()} outside [-1, 1]")
            else:
                mask = np.array(env.get("mask") or np.ones((B, flatdim(sp))))
                for b in range(B):
                    if sp["kind"] == "multibinary":
                        ok = all(x in (0.0, 1.0) for x in a[b]) and all(not (x == 1.0 and m == 0) for x, m in zip(a[b], mask[b]))
                    else:
                        ok, off = True, 0
                        for n, x in zip(segments(sp), a[b]):
                            ok = ok and x == int(x) and 0 <= int(x) < n and mask[b][off + int(x)] != 0
                            off += n
                    if not ok:
                        V("support", f"row {b}: action {a[b].tolist()} is outside the support / masked (mask {mask[b].tolist()})")
                        break
        if "lp_illegal" in out:
            for b in out["illegal_rows"]:
                if math.exp(min(out["lp_illegal"][b], 0.0)) != 0.0 or out["lp_illegal"][b] > -1e6:
                    V("masked-prob", f"row {b}: a masked action has log-probability {out['lp_illegal'][b]!r} (probability must be 0)")
                    break
        return vs

    # ---------- evidence helpers
    def key(self, case):
        k = {x: case.get(x) for x in ("api", "scenario", "variant", "space", "squash", "masked", "B", "logit_mode", "std_init", "mask_kind", "seed", "prep",
                                      "ids", "okey", "ikey", "obs_kind", "mask_fmt", "latent_dim", "log_std_set", "twist", "learn_twice", "obs_dtype")}
        return super().key(k)

    def nontrivial(self, case, obs):
        env = obs.get("env", {})
        partial = "mask" in env and any(0 in r for r in env["mask"])
        tie = any(len(set(r)) < len(r) for r in env.get("logit", []))
        return partial or case["B"] > 1 or tie

    def classify(self, case, obs):
        sp = case["space"]
        labs = [f"api={case['api']}", f"scenario={case['scenario']}{'/' + case['variant'] if case['variant'] else ''}",
                f"space={sp['kind']}", f"components={ncomp(sp)}", f"B={case['B']}", f"squash={case['squash'] and sp['kind'] == 'box'}",
                f"mask={case['mask_kind']}", f"logits={case['logit_mode']}", f"std_init={case['std_init']}",
                f"net_config={'partial' if case['partial_cfg'] else 'complete'}"]
        if sp["kind"] == "box" and case["squash"]:
            labs.append("branch=cached-sample" if case["scenario"] in ("fresh", "reeval", "ppo_get") else "branch=atanh-of-stored")
        if case.get("ids"):
            labs += [f"obs-key-order={case.get('okey')}", f"infos-key-order={case.get('ikey') if case['masked'] else 'no-infos'}"]
        labs.append(f"obs-kind={case.get('obs_kind', 'vector')}")
        if sp.get("dtype") == "float64":
            labs.append("box-bounds-dtype=float64")
        if case.get("obs_dtype"):
            labs.append("obs-dtype=float64")
        labs.append(f"twist={case.get('twist') or ('learn-twice' if case.get('learn_twice') else 'none')}")
        if sp["kind"] == "box" and obs.get("env", {}).get("log_std"):
            ls = obs["env"]["log_std"][0]
            labs.append("log_std-range=" + ("extreme(<-4 or >2)" if (min(ls) < -4 or max(ls) > 2) else "moderate"))
        if case.get("latent_dim"):
            labs.append(f"latent_dim={case['latent_dim']}(bounds 8..128)")
        if len(case.get("prep") or []) >= 3:
            labs.append("prep-chain>=3")
        if case["masked"] and case["api"] in ("actor", "ppo"):
            labs.append(f"mask-container={'list' if case.get('mask_fmt') == 'list' else ['int-array', 'bool-array', 'tensor', 'float32-array', 'uint8-array'][case['seed'] % 5]}")
        for q in case.get("prep") or []:
            labs.append(f"prepared-by={q}")
        if not case.get("prep"):
            labs.append("prepared-by=none(freshly built)")
        if obs.get("hit"):
            labs.append("branch=stored-tensor-equals-tanh-of-current-draw(saturated)")
        if self.nontrivial(case, obs):
            labs.append("nontrivial")
        return labs

    def neighbours(self, case, rng):
        for i in range(4):
            c = dict(case)
            c["seed"] = rng.randrange(10 ** 6)
            if i >= 2:
                c["B"] = max(2, case["B"])
            yield c


if __name__ == "__main__":
    sys.exit(vlib.run_check(C16()))
