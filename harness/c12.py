"""C12 — the vectorised multi-agent environment equals N independent environments."""
from __future__ import annotations

import itertools
import signal
import sys

import numpy as np

import vlib
from vlib import Violation, coq_Z

import c12_env
from c12_env import ScriptedEnv, make_env, act_value, encode, pack, describe, kind_name

IMPORT_ERROR = None
try:
    from agilerl.vector.pz_async_vec_env import AsyncPettingZooVecEnv
    from agilerl.wrappers.pettingzoo_wrappers import PettingZooAutoResetParallelWrapper
except Exception as _e:      # entry points renamed / not importable: every case fails closed in run_impl
    IMPORT_ERROR = f"cannot import AsyncPettingZooVecEnv / PettingZooAutoResetParallelWrapper: {type(_e).__name__}: {_e}"

BAD = 987654321          # decoded value of something that is not an integer tag
KIND = {"vector": "KVector", "image": "KImage", "discrete": "KDiscrete", "dict": "KDict", "tuple": "KTuple"}
MODE = {"term": "MTerm", "trunc": "MTrunc", "mixed": "MMixed"}
INFO_KEYS = {"tag": 0, "first": 1, "opt": 2}
RUN_TIMEOUT = 30         # wall-clock guard per run (s)


class _Timeout(Exception):
    pass


def _alarm(signum, frame):
    raise _Timeout()


def to_int(x):
    x = x.item() if hasattr(x, "item") else x
    if isinstance(x, (bool, np.bool_)):
        return int(x)
    if isinstance(x, int):
        return x
    return int(x) if float(x).is_integer() else BAD


def members_of(kind, v):
    """value of one agent (array | dict | tuple) -> list of member arrays, in the space's order"""
    st = describe(kind)["str"]
    if st == "dict":
        return [np.asarray(v[k]) for k in v]
    if st == "tuple":
        return [np.asarray(x) for x in v]
    return [np.asarray(v)]


def canon_arr(a):
    return {"shape": [int(s) for s in a.shape], "data": [to_int(x) for x in a.reshape(-1)], "dtype": str(a.dtype)}


def canon_vobs(kind, obs):
    """returned observation dict (or Observations object) -> [[agent index, [member arrays]]]"""
    out = []
    for agent in obs.keys():
        out.append([int(agent.split("_")[1]), [canon_arr(m) for m in members_of(kind, obs[agent])]])
    return out


def canon_vec(d):
    return [[int(agent.split("_")[1]), [to_int(x) for x in np.asarray(v).reshape(-1)], str(np.asarray(v).dtype)]
            for agent, v in d.items()]


def jsonable(x):
    """any info value -> something JSON can hold and == can compare (nan -> "nan")"""
    if isinstance(x, np.ndarray):
        return [jsonable(y) for y in x.tolist()] if x.dtype != object else [jsonable(y) for y in x]
    if isinstance(x, (list, tuple)):
        return [jsonable(y) for y in x]
    if isinstance(x, (bool, np.bool_)):
        return bool(x)
    if isinstance(x, (int, np.integer)):
        return int(x)
    if isinstance(x, (float, np.floating)):
        return "nan" if x != x else float(x)
    if x is None:
        return "nan"          # _add_info stores None as nan in a float array
    return str(x)


def flatten_info(d, prefix=""):
    """a single environment's info dict of one agent -> {dotted path: value} (INFO_KEYS excluded at top level)"""
    out = {}
    for k, v in d.items():
        if not prefix and k in INFO_KEYS:
            continue
        if isinstance(v, dict):
            out.update(flatten_info(v, prefix + k + "."))
        else:
            out[prefix + k] = jsonable(v)
    return out


def flatten_vinfo(sub, prefix=""):
    """vectorised sub-dict of one agent -> [[dotted path, per-env values, per-env mask]]"""
    out = []
    for k, v in sub.items():
        if k.startswith("_") or (not prefix and k in INFO_KEYS):
            continue
        mask = [bool(x) for x in sub.get("_" + k, [])]
        if isinstance(v, dict):
            for path, vals, m in flatten_vinfo(v, prefix + k + "."):
                out.append([path, vals, [x and y for x, y in zip(m, mask)] if len(m) == len(mask) else []])
        else:
            out.append([prefix + k, jsonable(v), mask])
    return out


def c12_flatten(d):
    return flatten_info(d)


def canon_infos(infos):
    ag, masks, unknown, extra = [], [], [], []
    for k, v in infos.items():
        if k.startswith("_"):
            if k[1:].startswith("agent_"):
                masks.append([int(k.split("_")[2]), [bool(x) for x in v]])
            else:
                unknown.append(k)
            continue
        if not k.startswith("agent_") or not isinstance(v, dict):
            unknown.append(k)
            continue
        sub = []
        for kk, vv in v.items():
            if kk.startswith("_") or kk not in INFO_KEYS:
                continue
            sub.append([INFO_KEYS[kk], [to_int(x) for x in vv], [bool(x) for x in v.get("_" + kk, [])]])
        ag.append([int(k.split("_")[1]), sub])
        ex = flatten_vinfo(v)
        if ex:
            extra.append([int(k.split("_")[1]), ex])
    return {"agents": ag, "masks": masks, "unknown": unknown, "extra": extra}


def canon_single(kind, obs):
    """dict agent -> single observation  ->  [[agent, [flat member lists]]]"""
    out = []
    for agent, v in obs.items():
        out.append([int(agent.split("_")[1]), [[to_int(x) for x in m.reshape(-1)] for m in members_of(kind, v)]])
    return out


def canon_sdict(d, f):
    return [[int(agent.split("_")[1]), f(v)] for agent, v in d.items()]


def canon_sinfo(d):
    return [[int(agent.split("_")[1]), [[INFO_KEYS.get(k, 99), to_int(v)] for k, v in inf.items()]] for agent, inf in d.items()]


# ------------------------------------------------------------------ Coq printing
def cl(items):
    return "[" + "; ".join(items) + "]"


def cnats(l):
    return cl(str(int(x)) for x in l)


def czs(l):
    return cl(coq_Z(x) for x in l)


def cbs(l):
    return cl("true" if x else "false" for x in l)


def cdict(entries, f):
    return cl(f"({a}, {f(v)})" for a, v in entries)


def cvarr(m):
    return f"({cnats(m['shape'])}, {czs(m['data'])})"


def cvobs(o):
    return cdict(o, lambda ms: cl(cvarr(m) for m in ms))


def cvinfo(i):
    a = cdict(i["agents"], lambda sub: cl(f"({k}, ({czs(v)}, {cbs(m)}))" for k, v, m in sub))
    return f"({a}, {cdict(i['masks'], cbs)})"


def cenv(case, i, e):
    leave = cl((f"Some {e['leave'][str(a)]}" if str(a) in e.get("leave", {}) else "None") for a in range(case["nag"]))
    return (f"{{| eid := {coq_Z(i)}; nag := {case['nag']}; lens := {cnats(e['lens'])}; mode := {MODE[e['mode']]}; "
            f"leave := {leave}; kind := {ckind(case['obs'])}; unaligned := {'true' if e.get('unaligned') else 'false'}; "
            f"join := {cl((f'Some {e['join'][str(a)]}' if str(a) in e.get('join', {}) else 'None') for a in range(case['nag']))} |}}")


def ckind(kind):
    if isinstance(kind, str):
        return KIND[kind]
    d = describe(kind)
    st = {"plain": "SPlain", "dict": "SDict", "tuple": "STuple"}[d["str"]]
    shapes = cl(cnats(m["shape"]) for m in d["members"])
    uns = cbs(c12_env.is_unsigned(m) for m in d["members"])
    return f"{{| ostr := {st}; mshapes := {shapes}; munsigned := {uns} |}}"


def cseed(s):
    return "None" if s is None else f"(Some {coq_Z(s)})"


def cseedspec(s):
    if s is None:
        return "SNone"
    if isinstance(s, list):
        return f"(SList {czs(s)})"
    return f"(SInt {coq_Z(s)})"


def options_of(case):
    return None if case.get("opt") is None else {"opt": int(case["opt"])}


def seed_at(s, i):
    return None if s is None else s[i] if isinstance(s, list) else s + i


def seed_for(case, i):
    return seed_at(case["seed"], i)


def opts_of(v):
    return None if v is None else {"opt": int(v)}


def midresets(case, si):
    """explicit reset(seed, options) calls made just before step si"""
    return (case.get("midresets") or {}).get(str(si), [])


def snapshot(d):
    """caller-owned dict of arrays / lists / ints -> (key order, value identities, deep copy)"""
    import copy as _copy
    return (list(d.keys()), [id(v) for v in d.values()], _copy.deepcopy(d))


def unchanged(d, snap):
    ks, ids, cp = snap
    if list(d.keys()) != ks or [id(v) for v in d.values()] != ids:
        return False
    for k in ks:
        a, b = d[k], cp[k]
        if type(a) is not type(b):
            return False
        if isinstance(a, np.ndarray):
            if a.dtype != b.dtype or a.shape != b.shape or not np.array_equal(a, b):
                return False
        elif a != b:
            return False
    return True


# ------------------------------------------------------------------ reference: environments stepped alone
class Reference:
    """environment i stepped alone (sequentially, in this process) under auto-reset"""

    def __init__(self, params, seed, options=None):
        self.env = ScriptedEnv(**params)
        self.obs, self.info = self.env.reset(seed=seed, options=options)
        self.resets = 1

    def reset(self, seed, options=None):
        self.obs, self.info = self.env.reset(seed=seed, options=options)
        self.resets += 1
        return self.obs, self.info

    def step(self, actions):
        obs, rew, term, trunc, info = self.env.step(actions)
        reset = False
        if not self.env.agents:                 # every agent of this environment has finished
            obs, info = self.env.reset()
            self.resets += 1
            reset = True
        return obs, rew, term, trunc, info, reset


def aorder(case):
    """insertion order of the action dict the caller passes (a permutation of the agents)"""
    o = case.get("aorder")
    return list(range(case["nag"])) if not o else [int(a) for a in o]


def env_params(case, i, e):
    return dict(layout=e.get("layout", "C"), mixed_types=bool(case.get("mixed_types", False)), **_env_params(case, i, e))


def _env_params(case, i, e):
    return dict(eid=i, nagents=case["nag"], lens=e["lens"], mode=e["mode"], leave=e.get("leave", {}),
                kind=case["obs"], akind=case["akind"], unaligned=bool(e.get("unaligned", False)),
                reversed_out=bool(e.get("reversed_out", False)), rich_info=bool(case.get("rich_info", False)),
                join=e.get("join", {}))


# ------------------------------------------------------------------ the driver
class C12(vlib.Driver):
    pid = "C12"
    preamble = "From Coq Require Import ZArith.\nFrom AgileV Require Import Base.Prelude C12.Model C12.Check.\nOpen Scope nat_scope."
    rule = ("vec: a run = (obs kind, action kind, copy mode, seed, per-environment episode-length script / end mode / "
            "leavers, action script) on real AsyncPettingZooVecEnv worker processes; wrap: the same family under "
            "PettingZooAutoResetParallelWrapper in-process. Distinct = distinct run description. Non-trivial = at "
            "least one automatic reset of a sub-environment while another sub-environment is mid-episode (vec), at "
            "least one automatic reset and one ordinary step (wrap).")
    trusted_base = ["hand-written model coq/theories/C12/Model.v",
                    "scripted environment family harness/c12_env.py (Python mirror of the Gallina family) and the "
                    "canonicalisation of returned arrays / info masks in harness/c12.py"]
    assumptions = ["the model is sequential: real parallelism, pickling and shared-memory visibility are exercised by K "
                   "on real worker processes but schedules are not enumerated (write_commute shows the order of the "
                   "workers' writes is irrelevant)",
                   "NumPy dtype casts are not modelled except that the -1 placeholder reads back as 255 in uint8",
                   "all sub-environments of one vector environment have the same spaces (as the constructor assumes)"]
    shard = 60

    # ---------- generation
    def generate(self, tier, rng):
        cases = []
        quick = tier == "quick"

        def actions(n_steps, nag, N):
            # agent a never gets the same code as agent a+1 in the same env and step, so that a confusion of
            # agents is visible in the echoed action
            out = []
            for _ in range(n_steps):
                base = [rng.randrange(5) for _ in range(N)]
                k = [rng.choice([1, 2]) for _ in range(N)]
                out.append([[(base[e] + a * k[e]) % 5 for e in range(N)] for a in range(nag)])
            return out

        def perm(nag, permuted=True):
            """insertion order of the caller's action dict; a non-identity permutation when possible"""
            ident = list(range(nag))
            if not permuted or nag < 2:
                return ident
            p = ident[:]
            while p == ident:
                rng.shuffle(p)
            return p

        # structured grid: every obs kind x action kind x end mode x leave pattern x copy mode, three
        # environments whose episode lengths differ so that resets interleave
        leaves = [{}, {"0": 1}, {"0": 1, "1": 2}]
        for obs, akind, mode, lv, copy in itertools.product(c12_env.OBS_KINDS, c12_env.ACT_KINDS,
                                                            ("term", "trunc", "mixed"), range(3), (True, False)):
            nag = 2 if lv < 2 else 3
            envs = [{"lens": [1], "mode": mode, "leave": {}},
                    {"lens": [2, 3], "mode": mode, "leave": leaves[lv]},
                    {"lens": [3, 1], "mode": mode, "leave": leaves[lv] if lv == 2 else {}}]
            if quick and not (copy or akind == "discrete"):
                continue
            if quick and akind in ("md2", "dlist", "box1") and lv != 0:
                continue
            if (lv + (0 if copy else 1)) % 2 == 1:      # half of the grid: every env returns its dicts reversed
                for e in envs:
                    e["reversed_out"] = True
            cases.append({"kind": "vec", "obs": obs, "akind": akind, "nag": nag, "copy": copy,
                          "seed": rng.choice([None, 0, 3, 11, [9, 2, 14]]), "opt": rng.choice([None, None, 0, 4]),
                          "rich_info": len(cases) % 4 == 1, "envs": envs, "actions": actions(7, nag, 3),
                          "aorder": perm(nag, len(cases) % 3 != 0)})
        def rand_space():
            st = rng.choice(["plain", "dict", "tuple"])
            ms = []
            for _ in range(1 if st == "plain" else rng.randint(1, 3)):
                leaf = rng.choice(["box", "box", "box", "discrete", "multidiscrete"])
                if leaf == "discrete":
                    ms.append({"leaf": leaf, "shape": [], "dtype": "int64"})
                elif leaf == "multidiscrete":
                    ms.append({"leaf": leaf, "shape": rng.choice([[1], [3], [2, 2]]), "dtype": "int64"})
                else:
                    ms.append({"leaf": leaf, "shape": rng.choice([[], [1], [3], [4], [2, 2], [1, 2], [3, 1], [2, 1, 3], [2, 2, 2], [1, 1, 1]]),
                               "dtype": rng.choice(["float32", "float64", "int32", "int64", "uint8"])})
            return {"str": st, "members": ms}

        # seeded runs (half of them over generated observation spaces: rank 0-3 members, 5 dtypes)
        for _ in range(80 if quick else 1500):
            N = rng.randint(1, 4)
            nag = rng.randint(1, 3)
            envs = []
            for i in range(N):
                lens = [rng.choice([1, 2, 3, 5]) for _ in range(rng.randint(1, 3))]
                leave = {}
                if rng.random() < 0.4:
                    for a in rng.sample(range(nag), rng.randint(1, nag)):
                        leave[str(a)] = rng.randint(1, 4)
                join = {}
                if nag > 1 and rng.random() < 0.25:
                    for a in rng.sample(range(nag), rng.randint(1, nag - 1)):     # at least one agent is there from the start
                        join[str(a)] = rng.randint(1, 3)
                envs.append({"lens": lens, "mode": rng.choice(["term", "trunc", "mixed"]), "leave": leave,
                             "reversed_out": rng.random() < 0.3, "join": join, "layout": rng.choice(["C", "C", "F", "S"])})
            steps = rng.randint(6, 12) if quick else rng.randint(6, 14)
            cases.append({"kind": "vec", "obs": rng.choice(c12_env.OBS_KINDS) if rng.random() < 0.5 else rand_space(),
                          "akind": rng.choice(c12_env.ACT_KINDS),
                          "nag": nag, "copy": rng.random() < 0.6,
                          "seed": rng.choice([None, 0, 1, 7, 20, [rng.randrange(30) for _ in range(N)]]),
                          "opt": rng.choice([None, 1, 6]), "rich_info": rng.random() < 0.25, "mixed_types": rng.random() < 0.3,
                          "midresets": ({str(rng.randint(1, 5)): [{"seed": rng.choice([None, 2, 13]), "opt": rng.choice([None, 4])}]}
                                        if rng.random() < 0.3 else {}),
                          "bad_calls": [rng.randint(0, 5)] if rng.random() < 0.2 else [],
                          "envs": envs, "actions": actions(steps, nag, N), "aorder": perm(nag, rng.random() < 0.6)})
        # agents that join late: join before / at / after the episode end, joiner that also leaves, join at step 1
        for obs, (jn, lv_), copy in itertools.product(("vector", "dict") if quick else ("vector", "dict", "image", "tuple"),
                                                     (({"1": 1}, {}), ({"1": 2}, {}), ({"1": 3}, {}), ({"1": 4}, {}),
                                                      ({"0": 2, "2": 1}, {}), ({"1": 1}, {"1": 2}), ({"2": 2}, {"0": 1})), (True,)):
            envs = [{"lens": [3, 2], "mode": "term", "leave": lv_, "join": jn},
                    {"lens": [2], "mode": "mixed", "leave": {}, "join": {}, "reversed_out": True},
                    {"lens": [4, 1], "mode": "trunc", "leave": lv_, "join": jn}]
            cases.append({"kind": "vec", "obs": obs, "akind": "discrete", "nag": 3, "copy": copy, "seed": 5, "opt": 2,
                          "envs": envs, "actions": actions(8, 3, 3), "aorder": perm(3)})
        # histories: explicit resets in the middle of episodes (also twice in a row, with / without seed and options),
        # identical action batches in consecutive steps, rejected calls followed by further use, a second vector
        # environment alive alongside, observation arrays that are Fortran-ordered / strided views, rewards / flags /
        # info tags whose Python / numpy type varies, seeds float32 cannot represent (float64 / int64 spaces)
        wide = {"str": "tuple", "members": [{"leaf": "box", "shape": [2, 3], "dtype": "float64"},
                                            {"leaf": "box", "shape": [3, 1, 2], "dtype": "int64"},
                                            {"leaf": "discrete", "shape": [], "dtype": "int64"}]}
        rect = {"str": "dict", "members": [{"leaf": "box", "shape": [2, 3], "dtype": "float32"},
                                           {"leaf": "box", "shape": [3, 2, 2], "dtype": "uint8"},
                                           {"leaf": "multidiscrete", "shape": [2, 2], "dtype": "int64"}]}
        wide_plain = {"str": "plain", "members": [{"leaf": "box", "shape": [2, 3], "dtype": "float64"}]}
        wide_dict = {"str": "dict", "members": [{"leaf": "box", "shape": [3, 1, 2], "dtype": "int64"},
                                                {"leaf": "box", "shape": [2], "dtype": "float64"}]}
        wides = [wide, wide_plain, wide_dict]
        hist_obs = ["vector", "image", "tuple", wide, rect, wide_plain, wide_dict]
        for hi, (obs, layout, copy) in enumerate(itertools.product(hist_obs, ("F", "S", "C"), (True, False))):
            if quick and not copy and layout == "C":
                continue
            big = any(obs is w for w in wides)
            envs = [{"lens": [3, 2], "mode": "term", "leave": {}, "layout": layout},
                    {"lens": [2], "mode": "mixed", "leave": {"1": 1} if hi % 2 else {}, "layout": layout, "reversed_out": hi % 3 == 0},
                    {"lens": [4, 1], "mode": "trunc", "leave": {}, "layout": "C" if hi % 2 else layout}]
            acts = actions(7, 2, 3)
            acts[3] = [list(x) for x in acts[2]]                # identical batch twice in a row
            mids = {"2": [{"seed": (2 ** 24 + 1) if big else 4, "opt": 3}],
                    "5": [{"seed": None, "opt": None}, {"seed": None, "opt": None}] if hi % 2 else
                         [{"seed": [2 ** 31 + 5, 2 ** 24 + 3, 6] if big else [8, 1, 5], "opt": None}, {"seed": 0, "opt": 0}]}
            cases.append({"kind": "vec", "obs": obs, "akind": ["discrete", "box2", "md2", "dlist"][hi % 4], "nag": 2, "copy": copy,
                          "seed": ((2 ** 24 + 1) if big else 0), "opt": None if hi % 2 else 5, "envs": envs, "actions": acts,
                          "aorder": perm(2, hi % 2 == 0), "midresets": mids, "bad_calls": [1, 4], "shadow": hi % 3 != 1,
                          "mixed_types": hi % 2 == 0, "rich_info": hi % 4 == 3})
        for hi, (mode, lay) in enumerate(itertools.product(("term", "mixed"), ("F", "S"))):
            cases.append({"kind": "wrap", "obs": [rect, "tuple"][hi % 2], "akind": "discrete", "nag": 2, "seed": 0, "opt": None,
                          "env": {"lens": [2, 3], "mode": mode, "leave": {}, "layout": lay}, "mixed_types": True,
                          "actions": [[x[0] for x in st] for st in actions(6, 2, 1)], "aorder": perm(2),
                          "midresets": {"1": [{"seed": 3, "opt": 1}], "4": [{"seed": None, "opt": None}, {"seed": None, "opt": 2}]}})
        # other multiprocessing start methods (workers import c12_env themselves; ~8 s per run)
        for ctx, obs in ([("spawn", "dict")] if quick else [("spawn", "dict"), ("spawn", "image"), ("forkserver", "tuple"), ("forkserver", "vector")]):
            envs = [{"lens": [2], "mode": "trunc", "leave": {}}, {"lens": [3, 1], "mode": "term", "leave": {"1": 1}}]
            cases.append({"kind": "vec", "obs": obs, "akind": "box2", "nag": 2, "copy": True, "seed": 2, "context": ctx,
                          "envs": envs, "actions": actions(6, 2, 2)})
        # environments whose truncation dict lists the agents in another order than the termination dict
        for obs, lv, copy in itertools.product(("vector", "tuple"), range(3), (True, False)):
            nag = 2 if lv < 2 else 3
            envs = [{"lens": [1, 2], "mode": "mixed", "leave": {}, "unaligned": True},
                    {"lens": [3], "mode": "trunc", "leave": leaves[lv], "unaligned": lv > 0},
                    {"lens": [2], "mode": "mixed", "leave": {}}]
            cases.append({"kind": "vec", "obs": obs, "akind": "discrete", "nag": nag, "copy": copy, "seed": 1,
                          "envs": envs, "actions": actions(6, nag, 3)})
        for mode, lv in itertools.product(("trunc", "mixed"), range(3)):
            nag = 2 if lv < 2 else 3
            cases.append({"kind": "wrap", "obs": "vector", "akind": "discrete", "nag": nag, "seed": None,
                          "env": {"lens": [2, 1], "mode": mode, "leave": leaves[lv], "unaligned": True},
                          "actions": [[x[0] for x in st] for st in actions(6, nag, 1)],
                          "aorder": perm(nag)})
        # the single-environment wrapper
        for mode, lv, obs in itertools.product(("term", "trunc", "mixed"), range(3), ("vector", "dict")):
            nag = 2 if lv < 2 else 3
            cases.append({"kind": "wrap", "obs": obs, "akind": "discrete", "nag": nag, "seed": rng.choice([None, 2]), "opt": rng.choice([None, 3]),
                          "env": {"lens": [2, 1, 3], "mode": mode, "leave": leaves[lv]},
                          "actions": [[x[0] for x in st] for st in actions(8, nag, 1)], "aorder": perm(nag, lv != 1)})
        for _ in range(30 if quick else 400):
            nag = rng.randint(1, 3)
            leave = {}
            if rng.random() < 0.4:
                for a in rng.sample(range(nag), rng.randint(1, nag)):
                    leave[str(a)] = rng.randint(1, 4)
            cases.append({"kind": "wrap", "obs": rng.choice(c12_env.OBS_KINDS), "akind": rng.choice(c12_env.ACT_KINDS),
                          "nag": nag, "seed": rng.choice([None, 0, 5]), "opt": rng.choice([None, 2, 8]),
                          "env": {"lens": [rng.choice([1, 2, 3, 5]) for _ in range(rng.randint(1, 3))],
                                  "mode": rng.choice(["term", "trunc", "mixed"]), "leave": leave,
                                  "join": ({str(nag - 1): rng.randint(1, 3)} if nag > 1 and rng.random() < 0.3 else {})},
                          "actions": [[x[0] for x in st] for st in actions(rng.randint(6, 12), nag, 1)],
                          "aorder": perm(nag, rng.random() < 0.6)})
        return cases

    # ---------- implementation
    def run_impl(self, case):
        if IMPORT_ERROR:
            raise RuntimeError(IMPORT_ERROR)
        old = signal.signal(signal.SIGALRM, _alarm)
        signal.alarm(RUN_TIMEOUT + (60 if case.get("context") else 0))
        try:
            return self.run_vec(case) if case["kind"] == "vec" else self.run_wrap(case)
        finally:
            signal.alarm(0)
            signal.signal(signal.SIGALRM, old)

    def run_vec(self, case):
        N, nag, kind, akind = len(case["envs"]), case["nag"], case["obs"], case["akind"]
        fns = [make_env(env_params(case, i, e)) for i, e in enumerate(case["envs"])]
        obs_out = {"reset": None, "steps": [], "error": None, "counters": None, "stale": [], "calls": None, "api": None,
                   "midresets": {}, "bad_calls": {}, "args_modified": [], "shadow": None}
        ve = AsyncPettingZooVecEnv(fns, copy=case["copy"], context=case.get("context"))
        handed = []
        shadow = None
        try:
            try:
                if case.get("shadow"):      # a second, unrelated vector environment alive in the same process
                    shadow = AsyncPettingZooVecEnv([make_env(dict(env_params(case, 7, case["envs"][0]), eid=7))], copy=True)
                    shadow.reset(seed=99)
                opts0 = options_of(case)
                snap0 = None if opts0 is None else snapshot(opts0)
                o, inf = ve.reset(seed=case["seed"], options=opts0)
                if snap0 is not None and not unchanged(opts0, snap0):
                    obs_out["args_modified"].append("reset:options")
                obs_out["reset"] = {"obs": canon_vobs(kind, o), "info": canon_infos(inf)}
                if case["copy"]:
                    handed.append((o, obs_out["reset"]["obs"], -1))
                else:       # the dict-like interface of the Observations object handed out in no-copy mode
                    obs_out["api"] = {"len": len(o), "contains": [f"agent_{a}" in o for a in range(nag)] + ["nope" in o],
                                      "get_missing_is_none": o.get("nope") is None,
                                      "get_eq_getitem": canon_vobs(kind, {"agent_0": o.get("agent_0")}) == canon_vobs(kind, {"agent_0": o["agent_0"]}),
                                      "keys": list(o.keys()), "items_keys": [k_ for k_, _ in o.items()],
                                      "n_values": len(list(o.values()))}
                def build(step, n):
                    # the caller's dict may list the agents in any order: it is a map
                    if akind == "dlist":     # plain Python lists of ints instead of arrays
                        return {f"agent_{a}": [int(step[a][e % N]) for e in range(n)] for a in aorder(case)}
                    return {f"agent_{a}": np.stack([act_value(akind, step[a][e % N]) for e in range(n)]) for a in aorder(case)}

                for si, step in enumerate(case["actions"]):
                    for mr in midresets(case, si):      # explicit resets in the middle of the run
                        mo = opts_of(mr.get("opt"))
                        msnap = None if mo is None else snapshot(mo)
                        o, inf = ve.reset(seed=mr["seed"], options=mo)
                        obs_out["midresets"].setdefault(str(si), []).append({"obs": canon_vobs(kind, o), "info": canon_infos(inf)})
                        if msnap is not None and not unchanged(mo, msnap):
                            obs_out["args_modified"].append(f"reset@{si}:options")
                    if si in (case.get("bad_calls") or []):
                        # calls that must be rejected and leave the vector environment exactly as it was
                        got = []
                        for bad in (build(step, N + 1), {k_: v_ for k_, v_ in list(build(step, N).items())[:-1]} if nag > 1 else build(step, N + 2)):
                            try:
                                ve.step(bad)
                                got.append("accepted")
                            except _Timeout:
                                raise
                            except Exception as e_:
                                got.append(type(e_).__name__)
                        obs_out["bad_calls"][str(si)] = got
                    acts = build(step, N)
                    asnap = snapshot(acts)
                    o, r, te, tr, inf = ve.step(acts)
                    if not unchanged(acts, asnap):
                        obs_out["args_modified"].append(f"step@{si}:actions")
                    if shadow is not None and si == 0:
                        shadow.step({f"agent_{a}": np.stack([act_value(akind, 1)]) if akind != "dlist" else [1] for a in range(nag)})
                    if shadow is not None and si == 1:
                        shadow.close()
                        shadow = None
                        obs_out["shadow"] = "closed"
                    rec = {"obs": canon_vobs(kind, o), "rew": canon_vec(r), "term": canon_vec(te),
                           "trunc": canon_vec(tr), "info": canon_infos(inf)}
                    obs_out["steps"].append(rec)
                    if case["copy"]:
                        handed.append((o, rec["obs"], si))
                # call / get_attr / set_attr / render: result i belongs to sub-environment i
                calls = {"render": jsonable(ve.render()), "echo": jsonable(ve.call("echo", 5, k=6))}
                mvals = [10 + 3 * i for i in range(N)]
                ve.set_attr("marker", mvals)
                if mvals != [10 + 3 * i for i in range(N)]:
                    obs_out["args_modified"].append("set_attr:values")
                calls["marker_list"] = jsonable(ve.get_attr("marker"))
                ve.set_attr("marker", (20 - i for i in range(N)) if False else tuple(20 - i for i in range(N)))
                calls["marker_tuple"] = jsonable(ve.get_attr("marker"))
                ve.set_attr("marker", 7)
                calls["marker_scalar"] = jsonable(ve.get_attr("marker"))
                try:
                    ve.set_attr("marker", [1] * (N + 1))
                    calls["bad_len"] = "accepted"
                except ValueError:
                    calls["bad_len"] = "ValueError"
                calls["marker_after_bad"] = jsonable(ve.get_attr("marker"))
                obs_out["calls"] = calls
                obs_out["counters"] = [list(c) for c in ve.call("get_counters")]
            except _Timeout:
                obs_out["error"] = {"type": "Hang", "step": len(obs_out["steps"]), "msg": f"no answer within {RUN_TIMEOUT}s"}
            except Exception as e:          # an exception out of reset/step is an observation, not a harness fault
                obs_out["error"] = {"type": type(e).__name__, "step": len(obs_out["steps"]), "msg": str(e)[:300]}
            # copy mode: observations handed out earlier must not change when later steps overwrite the buffer
            for o, canon, si in handed:
                if canon_vobs(kind, o) != canon:
                    obs_out["stale"].append(si)
        finally:
            for v_ in (ve, shadow):
                if v_ is None:
                    continue
                try:
                    v_.close(terminate=obs_out["error"] is not None)
                except Exception:
                    for p in getattr(v_, "processes", []):
                        if p.is_alive():
                            p.terminate()
        return obs_out

    def run_wrap(self, case):
        kind, akind, nag = case["obs"], case["akind"], case["nag"]
        env = PettingZooAutoResetParallelWrapper(ScriptedEnv(**env_params(case, 0, case["env"])))
        out = {"reset": None, "steps": [], "error": None, "counters": None, "midresets": {}, "args_modified": []}
        try:
            o, inf = env.reset(seed=case["seed"], options=options_of(case))
            out["reset"] = {"obs": canon_single(kind, o), "info": canon_sinfo(inf)}
            for si, step in enumerate(case["actions"]):
                for mr in midresets(case, si):
                    o, inf = env.reset(seed=mr["seed"], options=opts_of(mr.get("opt")))
                    out["midresets"].setdefault(str(si), []).append({"obs": canon_single(kind, o), "info": canon_sinfo(inf)})
                acts = {f"agent_{a}": act_value(akind, step[a]) for a in aorder(case)}
                asnap = snapshot(acts)
                o, r, te, tr, inf = env.step(acts)
                if not unchanged(acts, asnap):
                    out["args_modified"].append(f"step@{si}:actions")
                out["steps"].append({"obs": canon_single(kind, o), "rew": canon_sdict(r, to_int),
                                     "term": canon_sdict(te, bool), "trunc": canon_sdict(tr, bool),
                                     "info": canon_sinfo(inf)})
            out["counters"] = list(env.env.get_counters())
        except _Timeout:
            out["error"] = {"type": "Hang", "step": len(out["steps"]), "msg": ""}
        except Exception as e:
            out["error"] = {"type": type(e).__name__, "step": len(out["steps"]), "msg": str(e)[:300]}
        finally:
            env.close()
        return out

    # ---------- model term
    def coq_term(self, case, obs):
        if obs["error"] is not None or obs["reset"] is None or obs["counters"] is None:
            return "false"          # the model has no failing runs
        k = "(" + ckind(case["obs"]) + ")"
        if case["kind"] == "vec":
            N, nag = len(case["envs"]), case["nag"]
            agents = cnats(range(nag))
            Es = cl(cenv(case, i, e) for i, e in enumerate(case["envs"]))
            rs = obs["reset"]
            evs = [f"OEReset {cseedspec(case['seed'])} {cseed(case.get('opt'))} ({cvobs(rs['obs'])}, {cvinfo(rs['info'])})"]
            for si, (step, rec) in enumerate(zip(case["actions"], obs["steps"])):
                for mr, mrec in zip(midresets(case, si), obs["midresets"].get(str(si), [])):
                    evs.append(f"OEReset {cseedspec(mr['seed'])} {cseed(mr.get('opt'))} ({cvobs(mrec['obs'])}, {cvinfo(mrec['info'])})")
                acts = cdict([(a, step[a]) for a in aorder(case)], czs)
                ost = (f"({cvobs(rec['obs'])}, {cdict([(a, v) for a, v, _ in rec['rew']], czs)}, "
                       f"{cdict([(a, v) for a, v, _ in rec['term']], cbs)}, {cdict([(a, v) for a, v, _ in rec['trunc']], cbs)}, "
                       f"{cvinfo(rec['info'])})")
                evs.append(f"OEStep {acts} {ost}")
            counters = cl(f"({c[0]}, {c[1]})" for c in obs["counters"])
            return f"check_vec_events {k} {agents} {Es} {cl(evs)} {counters}"
        nag = case["nag"]
        E = cenv(case, 0, case["env"])
        cobs = lambda o: cdict(o, lambda ms: cl(czs(m) for m in ms))
        cinfo = lambda i: cdict(i, lambda kv: cl(f"({k_}, {coq_Z(v)})" for k_, v in kv))
        evs = [f"OWReset ({cseed(case['seed'])}, {cseed(case.get('opt'))}) ({cobs(obs['reset']['obs'])}, {cinfo(obs['reset']['info'])})"]
        for si, (step, rec) in enumerate(zip(case["actions"], obs["steps"])):
            for mr, mrec in zip(midresets(case, si), obs["midresets"].get(str(si), [])):
                evs.append(f"OWReset ({cseed(mr['seed'])}, {cseed(mr.get('opt'))}) ({cobs(mrec['obs'])}, {cinfo(mrec['info'])})")
            tr = (f"{{| tobs := {cobs(rec['obs'])}; trew := {cdict(rec['rew'], coq_Z)}; "
                  f"tterm := {cdict(rec['term'], lambda b: 'true' if b else 'false')}; "
                  f"ttrunc := {cdict(rec['trunc'], lambda b: 'true' if b else 'false')}; tinfo := {cinfo(rec['info'])} |}}")
            evs.append(f"OWStep {czs(step)} {tr}")
        c = obs["counters"]
        return f"check_wrapper_events {E} {cl(evs)} ({c[0]}, {c[1]})"

    # ---------- oracle: the property stated directly on the implementation's behaviour
    def oracle(self, case, obs):
        return self.oracle_vec(case, obs) if case["kind"] == "vec" else self.oracle_wrap(case, obs)

    @staticmethod
    def _flat(kind, v):
        return [[to_int(x) for x in m.reshape(-1)] for m in members_of(kind, v)]

    def oracle_vec(self, case, obs):
        N, nag, kind, akind = len(case["envs"]), case["nag"], case["obs"], case["akind"]
        site = kind if isinstance(kind, str) else "generated-" + describe(kind)["str"]
        if obs["error"] is not None:
            e = obs["error"]
            return [Violation("no-exception", f"vec:exception:{e['type']}",
                              f"vec_env raised {e['type']} at step {e['step']}: {e['msg']}")]
        space = c12_env.obs_space(kind)
        st = describe(kind)["str"]
        mspaces = list(space.spaces.values()) if st == "dict" else list(space.spaces) if st == "tuple" else [space]
        refs = [Reference(env_params(case, i, e), seed_for(case, i), options_of(case)) for i, e in enumerate(case["envs"])]

        def rows(vobs, i):
            """-> {agent: [flat member rows of env i]}, plus shape/dtype complaints"""
            out, bad = {}, []
            for a, ms in vobs:
                r = []
                for m, sp in zip(ms, mspaces):
                    size = int(np.prod(sp.shape))
                    if len(m["data"]) != N * size or not m["shape"] or m["shape"][0] != N:
                        bad.append(f"agent {a}: array of shape {m['shape']} for {N} envs of shape {sp.shape}")
                        r.append(None)
                        continue
                    if m["dtype"] != str(sp.dtype):
                        bad.append(f"agent {a}: dtype {m['dtype']}, declared {sp.dtype}")
                    r.append(m["data"][i * size:(i + 1) * size])
                if len(ms) != len(mspaces):
                    bad.append(f"agent {a}: {len(ms)} members, space has {len(mspaces)}")
                out[a] = r
            return out, bad

        def placeholder(sp):
            v = 255 if sp.dtype == np.uint8 else 65535 if sp.dtype == np.uint16 else -1
            return [v] * int(np.prod(sp.shape))

        def info_at(cinfo, a, i):
            """entries of agent a, env i that the masks declare present"""
            d = {}
            for ag, sub in cinfo["agents"]:
                if ag == a:
                    for k, vals, mask in sub:
                        if i < len(mask) and mask[i]:
                            d[k] = vals[i]
            return d

        def extra_at(cinfo, a, i):
            """the other info entries (float / bool / None / array / str / nested) of agent a, env i, through the masks"""
            d = {}
            for ag, ex in cinfo.get("extra", []):
                if ag == a:
                    for path, vals, mask in ex:
                        if i < len(mask) and mask[i]:
                            d[path] = vals[i] if isinstance(vals, list) and i < len(vals) else "?"
            return d

        def info_want(d):
            return {INFO_KEYS[k]: v for k, v in d.items() if k in INFO_KEYS}

        out = []
        una = [bool(e.get("unaligned")) for e in case["envs"]]

        def V(i, clause, sig, detail):
            # a sub-environment with unaligned dicts gets its own signature family (known finding of the
            # tree without fixes/C12-worker-done-test-by-key.patch)
            if una[i]:
                sig = "vec:unaligned-dicts:" + clause
                detail += " [this sub-environment lists the agents of its truncation dict in another order]"
            return Violation(clause, sig, detail)
        def check_reset(rs, label):
            """what a reset(seed, options) call returned vs the references (already reset with the same arguments)"""
            for i, ref in enumerate(refs):
                got, bad = rows(rs["obs"], i)
                if bad:
                    return [Violation("shape-dtype", f"vec:shape-dtype:{site}", f"{label}: {bad[0]}")]
                for a in range(nag):
                    if f"agent_{a}" not in ref.obs:      # joins later: placeholder observation, empty info
                        if got.get(a) != [placeholder(sp) for sp in mspaces] or info_at(rs["info"], a, i) or extra_at(rs["info"], a, i):
                            return [Violation("reset-obs", f"vec:reset-obs:late-joiner",
                                              f"{label}: env {i} agent {a} is not alive yet: got {got.get(a)} / {info_at(rs['info'], a, i)}, expected the placeholder and no info")]
                        continue
                    want = self._flat(kind, ref.obs[f"agent_{a}"])
                    if got.get(a) != want:
                        return [Violation("reset-obs", f"vec:reset-obs:{site}",
                                          f"{label}: env {i} agent {a} observation {got.get(a)}, alone it returns {want}")]
                    wi = info_want(ref.info[f"agent_{a}"])
                    we = c12_flatten(ref.info[f"agent_{a}"])
                    if extra_at(rs["info"], a, i) != we:
                        return [Violation("reset-info", "vec:reset-info:values",
                                          f"{label}: env {i} agent {a} info values {extra_at(rs['info'], a, i)}, alone {we}")]
                    if info_at(rs["info"], a, i) != wi:
                        return [Violation("reset-info", "vec:reset-info",
                                          f"{label}: env {i} agent {a} info {info_at(rs['info'], a, i)}, alone {wi}")]
            if rs["info"]["unknown"]:
                return [Violation("info", "vec:info-keys", f"unexpected info keys {rs['info']['unknown']}")]
            return []

        # reset
        v = check_reset(obs["reset"], f"reset(seed={case['seed']}, options={options_of(case)})")
        if v:
            return v
        # steps
        for si, (step, rec) in enumerate(zip(case["actions"], obs["steps"])):
            mrecs = obs.get("midresets", {}).get(str(si), [])
            if len(mrecs) != len(midresets(case, si)):
                return [Violation("reset", "vec:mid-reset-missing", f"step {si}: {len(mrecs)} reset results recorded")]
            for mr, mrec in zip(midresets(case, si), mrecs):
                for i, ref in enumerate(refs):
                    ref.reset(seed_at(mr["seed"], i), opts_of(mr.get("opt")))
                v = check_reset(mrec, f"reset(seed={mr['seed']}, options={opts_of(mr.get('opt'))}) before step {si}")
                if v:
                    v[0].signature = v[0].signature.replace("vec:reset", "vec:mid-reset", 1)
                    return v
            for i, ref in enumerate(refs):
                acts = {f"agent_{a}": act_value(akind, step[a][i]) for a in range(nag)}
                o, r, te, tr, inf, was_reset = ref.step(acts)
                got, bad = rows(rec["obs"], i)
                if bad:
                    return [Violation("shape-dtype", f"vec:shape-dtype:{site}", f"step {si}: {bad[0]}")]
                where = f"step {si} env {i}"
                for a in range(nag):
                    ag = f"agent_{a}"
                    present = ag in o
                    want = self._flat(kind, o[ag]) if present else [placeholder(sp) for sp in mspaces]
                    if got.get(a) != want:
                        if was_reset:
                            cl_, sig = "autoreset-obs", f"vec:autoreset-obs:{site}"
                            why = "the environment was reset at this step; alone it returns the first observation of the new episode"
                        elif not present:
                            cl_, sig, why = "left-agent", f"vec:left-agent-obs:{site}", "the agent has left the episode: placeholder expected"
                        else:
                            cl_, sig, why = "obs", f"vec:obs:{site}", "environment stepped alone with its own actions"
                        return [V(i, cl_, sig, f"{where} agent {a}: observation {got.get(a)}, expected {want} ({why})")]
                    for name, col, ref_d, ph in (("reward", rec["rew"], r, 0), ("termination", rec["term"], te, 1),
                                                 ("truncation", rec["trunc"], tr, 0)):
                        vals = {x[0]: x[1] for x in col}
                        wantv = to_int(ref_d[ag]) if ag in ref_d else ph
                        g = vals.get(a)
                        if g is None or len(g) != N or g[i] != wantv:
                            return [V(i, name, f"vec:{name}" + ("" if ag in ref_d else ":left-agent"),
                                      f"{where} agent {a}: {name} {g}, position {i} expected {wantv}")]
                    wi = info_want(inf[ag]) if ag in inf else {}
                    we = c12_flatten(inf[ag]) if ag in inf else {}
                    if extra_at(rec["info"], a, i) != we:
                        return [V(i, "info", "vec:info:values",
                                  f"{where} agent {a}: info values {extra_at(rec['info'], a, i)}, alone {we}")]
                    if info_at(rec["info"], a, i) != wi:
                        return [V(i, "info", "vec:info" + (":autoreset" if was_reset else ""),
                                  f"{where} agent {a}: info {info_at(rec['info'], a, i)}, alone {wi}")]
            if rec["info"]["unknown"]:
                return [Violation("info", "vec:info-keys", f"unexpected info keys {rec['info']['unknown']}")]
        # rejected calls must raise and change nothing (what follows them was compared above)
        for si, got in (obs.get("bad_calls") or {}).items():
            want = ["AssertionError", "KeyError" if nag > 1 else "AssertionError"]
            if got != want:
                out.append(Violation("bad-call", "vec:bad-call", f"before step {si}: malformed step() calls gave {got}, expected {want}"))
                break
        # the caller's objects are the caller's
        if obs.get("args_modified"):
            out.append(Violation("arguments", "vec:arguments-modified:" + obs["args_modified"][0].split(":")[-1],
                                 f"the vector environment changed objects handed in by the caller: {obs['args_modified']}"))
        if case.get("shadow") and obs.get("shadow") != "closed":
            out.append(Violation("shadow", "vec:second-env", "a second vector environment could not be stepped and closed alongside"))
        # call / get_attr / set_attr / render: result i is sub-environment i's
        c = obs.get("calls")
        if c is not None:
            want = {"render": [["frame", i, r.env.ord, r.env.t] for i, r in enumerate(refs)],
                    "echo": [[i, 5, 6] for i in range(N)],
                    "marker_list": [10 + 3 * i for i in range(N)], "marker_tuple": [20 - i for i in range(N)],
                    "marker_scalar": [7] * N, "bad_len": "ValueError", "marker_after_bad": [7] * N}
            for k_, w in want.items():
                if c.get(k_) != w:
                    out.append(Violation("call", f"vec:call:{k_}", f"{k_}: got {c.get(k_)}, expected {w} (one result per sub-environment, in order)"))
                    break
        api = obs.get("api")
        if api is not None:
            names = [f"agent_{a}" for a in range(nag)]
            want = {"len": nag, "contains": [True] * nag + [False], "get_missing_is_none": True, "get_eq_getitem": True,
                    "keys": names, "items_keys": names, "n_values": nag}
            for k_, w in want.items():
                if api.get(k_) != w:
                    out.append(Violation("observations-api", f"vec:observations-api:{k_}", f"Observations.{k_}: {api.get(k_)}, expected {w}"))
                    break
        # only environment i is reset when it finishes: the workers' own reset counters
        for i, ref in enumerate(refs):
            c = obs["counters"][i]
            if c[2] != ref.resets or c[0] != ref.env.ord or c[1] != ref.env.t:
                out.append(V(i, "reset-count", "vec:reset-count",
                                     f"env {i} ended at (episode {c[0]}, t {c[1]}, {c[2]} resets); alone: "
                                     f"(episode {ref.env.ord}, t {ref.env.t}, {ref.resets} resets)"))
                break
        if obs["stale"]:
            out.append(Violation("copy", "vec:copy-aliased", f"copy=True but the observations returned at steps {obs['stale']} changed later"))
        return out

    def oracle_wrap(self, case, obs):
        kind, akind, nag = case["obs"], case["akind"], case["nag"]
        if obs["error"] is not None:
            e = obs["error"]
            return [Violation("no-exception", f"wrap:exception:{e['type']}", f"wrapper raised {e['type']} at step {e['step']}: {e['msg']}")]
        ref = Reference(env_params(case, 0, case["env"]), case["seed"], options_of(case))
        if obs["reset"]["obs"] != canon_single(kind, ref.obs) or obs["reset"]["info"] != canon_sinfo(ref.info):
            return [Violation("reset", "wrap:reset", f"reset returned {obs['reset']}")]
        if obs.get("args_modified"):
            return [Violation("arguments", "wrap:arguments-modified", f"the wrapper changed the caller's action dict: {obs['args_modified']}")]
        for si, (step, rec) in enumerate(zip(case["actions"], obs["steps"])):
            for mr, mrec in zip(midresets(case, si), obs.get("midresets", {}).get(str(si), [])):
                ro, ri = ref.reset(mr["seed"], opts_of(mr.get("opt")))
                if mrec["obs"] != canon_single(kind, ro) or mrec["info"] != canon_sinfo(ri):
                    return [Violation("reset", "wrap:mid-reset", f"reset before step {si} returned {mrec}")]
            acts = {f"agent_{a}": act_value(akind, step[a]) for a in range(nag)}
            o, r, te, tr, inf, was_reset = ref.step(acts)
            want = {"obs": canon_single(kind, o), "rew": canon_sdict(r, to_int), "term": canon_sdict(te, bool),
                    "trunc": canon_sdict(tr, bool), "info": canon_sinfo(inf)}
            for f in ("obs", "rew", "term", "trunc", "info"):
                if rec[f] != want[f]:
                    trunc_only = was_reset and any(v for _, v in want["trunc"])
                    sig = "wrap:reset-condition" + (":truncation" if trunc_only else "") if f in ("obs", "info") else f"wrap:{f}"
                    return [Violation("wrapper", sig, f"step {si}: {f} = {rec[f]}, expected {want[f]} "
                                      f"(reference {'restarted the episode' if was_reset else 'did not restart'} at this step)")]
        c = obs["counters"]
        if c[2] != ref.resets:
            return [Violation("wrapper", "wrap:reset-count", f"{c[2]} resets, expected {ref.resets}")]
        return []

    # ---------- evidence
    def _trace(self, case):
        """(number of auto-resets, interleaved?, had leavers absent) from the reference alone"""
        if case["kind"] == "vec":
            envs, N = case["envs"], len(case["envs"])
        else:
            envs, N = [case["env"]], 1
        refs = [Reference(env_params(case, i, e), None) for i, e in enumerate(envs)]
        n_reset, inter, absent, plain = 0, False, False, False
        for si_, step in enumerate(case["actions"]):
            for mr in midresets(case, si_):
                for ref in refs:
                    ref.reset(None)
            flags = []
            for i, ref in enumerate(refs):
                if case["kind"] == "vec":
                    acts = {f"agent_{a}": act_value(case["akind"], step[a][i]) for a in range(case["nag"])}
                else:
                    acts = {f"agent_{a}": act_value(case["akind"], step[a]) for a in range(case["nag"])}
                o, r, te, tr, inf, was_reset = ref.step(acts)
                flags.append(was_reset)
                absent |= len(o) < case["nag"]
                plain |= not was_reset
            n_reset += sum(flags)
            for i, f in enumerate(flags):
                if f and any((not g) and refs[j].env.t > 0 for j, g in enumerate(flags) if j != i):
                    inter = True
        return n_reset, inter, absent, plain

    def nontrivial(self, case, obs):
        n_reset, inter, absent, plain = self._trace(case)
        return inter if case["kind"] == "vec" else (n_reset > 0 and plain)

    def classify(self, case, obs):
        n_reset, inter, absent, plain = self._trace(case)
        envs = case["envs"] if case["kind"] == "vec" else [case["env"]]
        d = describe(case["obs"])
        olab = case["obs"] if isinstance(case["obs"], str) else "generated-" + d["str"]
        labs = [f"kind={case['kind']}", f"obs={olab}", f"act={case['akind']}", f"agents={case['nag']}",
                f"seed={'none' if case['seed'] is None else 'list' if isinstance(case['seed'], list) else 'int'}",
                f"options={'none' if case.get('opt') is None else 'given'}"]
        if case["kind"] == "vec":
            labs += [f"num_envs={len(envs)}", f"copy={case['copy']}", f"context={case.get('context') or 'default(fork)'}"]
        labs += sorted({f"end={e['mode']}" for e in envs})
        labs += sorted({f"dtype={m['dtype']}" for m in d["members"]} | {f"rank={len(m['shape'])}" for m in d["members"]}
                       | {f"leaf={m['leaf']}" for m in d["members"]})
        labs.append("leavers" if any(e.get("leave") for e in envs) else "no-leavers")
        if any(e.get("join") for e in envs):
            labs.append("late-joiners")
        if any(e.get("unaligned") for e in envs):
            labs.append("unaligned-dicts")
        if case.get("rich_info"):
            labs.append("info-values=all-kinds")
        if case.get("midresets"):
            labs.append("history:explicit-reset-mid-run")
            if any(len(v) > 1 for v in case["midresets"].values()):
                labs.append("history:two-resets-in-a-row")
        if case.get("bad_calls"):
            labs.append("history:rejected-call-then-further-use")
        if case.get("shadow"):
            labs.append("second-vector-env-alongside")
        if case.get("mixed_types"):
            labs.append("value-types=mixed-python-numpy")
        for lay in sorted({e.get("layout", "C") for e in envs}):
            labs.append(f"obs-layout={lay}")
        big_ = lambda x: isinstance(x, int) and x > 2 ** 24 or isinstance(x, list) and any(y > 2 ** 24 for y in x)
        if big_(case["seed"]) or any(big_(m.get("seed")) for v in (case.get("midresets") or {}).values() for m in v):
            labs.append("values-beyond-float32")
        if any(e.get("reversed_out") for e in envs):
            labs.append("env-dicts-reversed")
        labs.append("action-dict=" + ("agents-order" if aorder(case) == list(range(case["nag"])) else "permuted"))
        if absent:
            labs.append("branch:placeholder-filled" if case["kind"] == "vec" else "branch:agent-absent")
        labs.append("branch:auto-reset" if n_reset else "branch:no-auto-reset")
        if inter:
            labs.append("branch:reset-interleaved")
        return labs

    def neighbours(self, case, rng):
        # same run, shorter; same run with one environment / leaver dropped
        for n in range(1, len(case["actions"])):
            c = dict(case); c["actions"] = case["actions"][:n]
            yield c


if __name__ == "__main__":
    sys.exit(vlib.run_check(C12()))
