"""C17 — advantage estimation follows its definition, respects episode boundaries, and every estimate
is applied to the observation/action of the (agent, env, step) it was computed for (PPO, IPPO)."""
from __future__ import annotations

import copy
import itertools
import random
import sys
from fractions import Fraction as F

import numpy as np
import torch
from gymnasium import spaces

import vlib
from vlib import Violation, coq_Q

import agilerl.algorithms.ppo as ppo_mod
import agilerl.algorithms.ippo as ippo_mod
from agilerl.algorithms.ppo import PPO
from agilerl.algorithms.ippo import IPPO

from agilerl.training.train_on_policy import train_on_policy
from agilerl.training.train_multi_agent_on_policy import train_multi_agent_on_policy

BAD = -1


# ------------------------------------------------------------------ scripted environments for the training loops
class ScriptedEnv:
    """(vectorised) gym-style env whose episode ends are scripted: flags[k][e] & 1 = terminated, & 2 = truncated at step k.
    Observation before step k in env e carries the tag k*8 + e + 1."""

    def __init__(self, E, flags, vec):
        self.E, self.flags, self.k, self.vec = E, flags, 0, vec
        if vec:
            self.num_envs = E
        self.observation_space = self.single_observation_space = spaces.Box(-1e5, 1e5, (3,), np.float32)
        self.action_space = self.single_action_space = spaces.Discrete(2)

    def _obs(self):
        x = np.array([self.k * 8 + e + 1 for e in range(self.E)], np.float32)
        o = np.stack([x, x + 0.25, x + 0.5], -1)
        return o if self.vec else o[0]

    def reset(self, **kw):
        return self._obs(), {}

    def step(self, action):
        f = self.flags[self.k]
        self.k += 1
        term = np.array([bool(c & 1) for c in f]); trunc = np.array([bool(c & 2) for c in f])
        r = np.array([float(self.k)] * self.E, np.float32)
        if not self.vec:
            term, trunc, r = bool(term[0]), bool(trunc[0]), float(r[0])
        return self._obs(), r, term, trunc, {}


class ScriptedMAEnv:
    """parallel multi-agent analogue: flags[k][agent][e]; observation tag k*64 + agent*8 + e + 1"""

    def __init__(self, ids, E, flags, vec):
        self.ids, self.agents, self.possible_agents = ids, list(ids), list(ids)
        self.E, self.flags, self.k, self.vec = E, flags, 0, vec
        if vec:
            self.num_envs = E
        self.osp = spaces.Box(-1e5, 1e5, (3,), np.float32)
        self.asp = spaces.Discrete(2)

    def observation_space(self, a):
        return self.osp

    def action_space(self, a):
        return self.asp

    def _obs(self):
        out = {}
        for i, a in enumerate(self.ids):
            x = np.array([self.k * 64 + i * 8 + e + 1 for e in range(self.E)], np.float32)
            o = np.stack([x, x + 0.25, x + 0.5], -1)
            out[a] = o if self.vec else o[0]
        return out

    def reset(self, **kw):
        return self._obs(), {a: {} for a in self.ids}

    def step(self, act):
        f = self.flags[self.k]
        self.k += 1
        term, trunc, rew = {}, {}, {}
        for i, a in enumerate(self.ids):
            t = np.array([bool(c & 1) for c in f[i]]); u = np.array([bool(c & 2) for c in f[i]])
            r = np.array([float(self.k)] * self.E, np.float32)
            if not self.vec:
                t, u, r = bool(t[0]), bool(u[0]), float(r[0])
            term[a], trunc[a], rew[a] = t, u, r
        return self._obs(), rew, term, trunc, {a: {} for a in self.ids}
NC_PLAIN = {"encoder_config": {"hidden_size": [8], "layer_norm": False, "activation": "ReLU"},
            "head_config": {"hidden_size": [4], "layer_norm": False, "activation": "ReLU"}}
NC_PARTIAL = {"encoder_config": {"hidden_size": [8]}}          # what a user typically passes
TOL = 1e-4
# IPPO.assemble_shared_inputs regroups every experience dict in that dict's own insertion order, so the eight dicts of
# one rollout must list the agents in one common order (the training loop builds all of them from agent.agent_ids).
# Differently ordered dicts are outside that contract; switch on once fixes/C17-ippo-assemble-by-agent-ids.patch is in.
INDEPENDENT_DICT_ORDERS = False


def tag(t, a, e, ts=64):
    return t * ts + a * 8 + e + 1


def untag(x, ts=64):
    x -= 1
    return x // ts, (x % ts) // 8, x % 8


INT_TYPES = ("int", "i64", "i32", "i8", "u8", "arr0d_i", "bool")
FLOAT_TYPES = ("pyfloat", "f32", "f64", "arr0d_f")


def cast_step(x, ty, vec):
    """one per-step entry (array over envs, or a scalar on a plain env) in the Python / numpy type `ty`.  A narrow type
    is used only if it holds the value exactly (the harness must not truncate anything itself)."""
    arr = np.asarray(x, dtype=np.float64)
    integral = bool(np.all(arr == np.round(arr)))
    if ty in INT_TYPES and (not integral or (ty == "bool" and not np.all((arr == 0) | (arr == 1)))
                            or (ty == "u8" and np.any(arr < 0))):
        ty = "f32"
    if vec:
        dt = {"int": np.int64, "i64": np.int64, "i32": np.int32, "i8": np.int8, "u8": np.uint8, "arr0d_i": np.int64, "bool": np.bool_,
              "pyfloat": np.float64, "f64": np.float64, "f32": np.float32, "arr0d_f": np.float32}[ty]
        return arr.astype(dt)
    v = float(arr.reshape(-1)[0])
    return {"int": lambda: int(v), "i64": lambda: np.int64(v), "i32": lambda: np.int32(v), "i8": lambda: np.int8(v),
            "u8": lambda: np.uint8(v), "arr0d_i": lambda: np.array(int(v)),
            "bool": lambda: bool(v), "pyfloat": lambda: v, "f64": lambda: np.float64(v), "f32": lambda: np.float32(v),
            "arr0d_f": lambda: np.array(v, dtype=np.float32)}[ty]()


def snap(x):
    """value snapshot of an argument handed to learn() (lists, dicts, tuples, arrays, tensors, numbers)"""
    if isinstance(x, dict):
        return ("dict", [(k, snap(v)) for k, v in x.items()])
    if isinstance(x, (list, tuple)):
        return (type(x).__name__, [snap(v) for v in x])
    if isinstance(x, torch.Tensor):
        return ("tensor", str(x.dtype), tuple(x.shape), x.detach().cpu().numpy().tobytes())
    if isinstance(x, np.ndarray):
        return ("ndarray", str(x.dtype), tuple(x.shape), x.tobytes())
    return (type(x).__name__, repr(x))


ARG_NAMES = ["states", "actions", "log_probs", "rewards", "dones", "values", "next_state", "next_done"]


def id_groups(ids):
    """agent id -> (group index, position inside the group); groups (homogeneous ids = id without its last _suffix, as
    get_homo_id does) are numbered by first appearance in agent_ids, members by their order in agent_ids"""
    homos, out, count = [], {}, {}
    for aid in ids:
        h = aid.rsplit("_", 1)[0]
        if h not in homos:
            homos.append(h)
        gi = homos.index(h)
        out[aid] = (gi, count.get(gi, 0))
        count[gi] = count.get(gi, 0) + 1
    return out


SUFFIX_STYLES = [
    lambda n: [str(i) for i in range(n)],                                   # agent_0, agent_1, ... (sorted)
    lambda n: [str(i) for i in reversed(range(n))],                         # agent_2, agent_1, agent_0
    lambda n: ["zeta", "alpha", "mid", "beta", "omega", "b", "a", "k", "c", "y", "x", "m", "d"][:n],   # not alphabetical
    lambda n: [str(i) for i in ([1, 0] + list(range(2, n)))[:n]] if n > 1 else ["0"],
]


def make_ids(rng, nA):
    """agent_ids for the groups (sizes nA): unsorted suffixes, the two groups possibly interleaved ('agent' first)"""
    names = ["agent", "other"]
    per = [[f"{names[gi]}_{sfx}" for sfx in rng.choice(SUFFIX_STYLES)(n)] for gi, n in enumerate(nA)]
    if len(per) == 1:
        return per[0]
    ids = [per[0][0]]
    rest = [(0, x) for x in per[0][1:]] + [(1, x) for x in per[1]]
    if rng.random() < 0.5:          # interleave, keeping the order inside each group
        pos = {0: 1, 1: 0}
        seq = [0] * (len(per[0]) - 1) + [1] * len(per[1])
        rng.shuffle(seq)
        for gi in seq:
            ids.append(per[gi][pos[gi]]); pos[gi] += 1
    else:
        ids += [x for _, x in rest]
    return ids


# ------------------------------------------------------------------ spaces and tagged data
def obs_space(kind):
    if kind == "vector":
        return spaces.Box(-1e5, 1e5, (3,), np.float32)
    if kind == "dict":
        return spaces.Dict({"p": spaces.Box(-1e5, 1e5, (2,), np.float32), "q": spaces.Box(-1e5, 1e5, (3,), np.float32)})
    if kind == "tuple":
        return spaces.Tuple((spaces.Box(-1e5, 1e5, (2,), np.float32), spaces.Box(-1e5, 1e5, (3,), np.float32)))
    if kind == "image":
        return spaces.Box(0, 1e5, (1, 3, 3), np.float32)
    raise ValueError(kind)


def act_space(kind):
    if kind == "box2":
        return spaces.Box(-1e5, 1e5, (2,), np.float32)
    if kind == "box1":
        return spaces.Box(-1e5, 1e5, (1,), np.float32)
    if kind == "discrete":
        return spaces.Discrete(5)
    if kind == "multidisc":
        return spaces.MultiDiscrete([7, 7])
    raise ValueError(kind)


def mk_obs(kind, x0s):
    """observation batch whose first feature is x0s[i] (array (n,)); other features derived from it"""
    x = np.asarray(x0s, dtype=np.float32)
    if kind == "vector":
        return np.stack([x, x + 0.25, x + 0.5], axis=-1)
    if kind == "image":
        return np.broadcast_to(x[..., None, None, None], x.shape + (1, 3, 3)).copy()
    p, q = np.stack([x, x + 0.25], axis=-1), np.stack([x + 0.5, x, x], axis=-1)
    return (p, q) if kind == "tuple" else {"p": p, "q": q}


def mk_act(kind, tags):
    x = np.asarray(tags)
    if kind == "box2":
        return np.stack([x, x], axis=-1).astype(np.float32)
    if kind == "box1":
        return x.astype(np.float32)[..., None]
    if kind == "multidisc":
        return np.stack([x, x], axis=-1).astype(np.int64)
    return x.astype(np.int64)


def dec_obs(kind, o, n):
    if kind == "image":
        m = np.asarray(o, dtype=np.float64).reshape(n, -1)
        return [int(r[0]) if (r.shape[0] == 9 and np.all(r == r[0]) and float(r[0]).is_integer()) else BAD for r in m]
    if kind == "vector":
        m = np.asarray(o, dtype=np.float64).reshape(n, -1)
        return [int(r[0]) if (r.shape[0] == 3 and r[1] == r[0] + 0.25 and r[2] == r[0] + 0.5 and float(r[0]).is_integer()) else BAD for r in m]
    p = np.asarray(o[0] if kind == "tuple" else o["p"], dtype=np.float64).reshape(n, -1)
    q = np.asarray(o[1] if kind == "tuple" else o["q"], dtype=np.float64).reshape(n, -1)
    if p.shape[1] != 2 or q.shape[1] != 3:
        return [BAD] * n
    return [int(a[0]) if (a[1] == a[0] + 0.25 and b[0] == a[0] + 0.5 and b[1] == a[0] and b[2] == a[0] and float(a[0]).is_integer()) else BAD
            for a, b in zip(p, q)]


def dec_flat(x, n):
    m = np.asarray(x, dtype=np.float64).reshape(n, -1)
    return [int(r[0]) if (np.all(r == r[0]) and float(r[0]).is_integer()) else BAD for r in m]


def dec_num(x, n):
    m = np.asarray(x, dtype=np.float64).reshape(n, -1)
    assert m.shape[1] == 1, f"per-sample scalar expected, got width {m.shape[1]}"
    return [float(v) for v in m[:, 0]]


def raw_modules(net):
    return list(torch.nn.Module.modules(net))


def pin_critic(critic, bias):
    """value(obs) = relu-chain(obs[0]) + bias when the net is a plain ReLU MLP; constant `bias` otherwise
    (all weights zero).  The harness never relies on this: next values are read back per column."""
    with torch.no_grad():
        mods = raw_modules(critic)
        for p in critic.parameters():
            p.zero_()
        lins = [m for m in mods if isinstance(m, torch.nn.Linear)]
        plain = lins and not any(isinstance(m, torch.nn.LayerNorm) for m in mods)
        if plain:
            for m in lins:
                m.weight[0, 0] = 1.0
        if lins:
            lins[-1].bias.fill_(bias)


# ------------------------------------------------------------------ reference (oracle side)
def ref_gae(g, l, R, V, D, nv, nd):
    """Fractions; R,V,D: [t] for one column; returns advantages [t]"""
    T = len(R)
    out = [None] * T
    last = F(0)
    for t in reversed(range(T)):
        v1 = F(nv) if t == T - 1 else F(V[t + 1])
        d1 = F(nd) if t == T - 1 else F(D[t + 1])
        delta = F(R[t]) + F(g) * v1 * (1 - d1) - F(V[t])
        last = delta + F(g) * F(l) * (1 - d1) * last
        out[t] = last
    return out


def close(a, b, exact, tol=TOL):
    a, b = F(a), F(b)
    if exact:
        return a == b
    return abs(a - b) <= F(tol) * (1 + abs(b))


def case_tol(case):
    """float32 rounding is relative to the magnitude of the INPUTS (an estimate may cancel to ~0): scaled rollouts get a
    tolerance scaled with them"""
    k = case.get("magnitude")
    return TOL * (2.0 ** k if k and k > 0 else 1.0)


class C17(vlib.Driver):
    pid = "C17"
    preamble = ("From Coq Require Import ZArith QArith.\nFrom AgileV Require Import C17.Model C17.Check.\n"
                "Open Scope Q_scope.")
    rule = ("rollouts (algorithm, T, agents sharing a policy, envs, vectorised?, done placement, gamma, lambda) with dyadic "
            "rewards/values and tagged observations/actions/log-probs; exhaustive over done placements for small T, seeded "
            "otherwise. Distinct = distinct (algorithm, T, E, A, vectorised, done placement incl. next_done). Non-trivial = at "
            "least one episode end strictly inside the rollout.")
    trusted_base = ["hand-written model coq/theories/C17/Model.v",
                    "correspondence harness harness/c17.py (tag encoding of observations/actions/log-probs, wrapper around the "
                    "module-level get_experiences_samples, critic pinned through its parameters, next values read back per column)"]
    assumptions = ["torch element-wise arithmetic over a row acts column by column (exercised by K)",
                   "float32 arithmetic is exact on the dyadic inputs of the exact cases (gamma, lambda in {0, 1/2, 1}, T <= 8); "
                   "other cases are compared with relative tolerance 1e-4 evaluated in Q",
                   "dones are 0/1 (the .long() cast of the code is the identity on them)"]
    shard = 60
    exhaustive = True

    def __init__(self):
        self._agents = {}

    # ---------- generation
    def rand_group(self, rng, T, A, E, exact, dones=None, p_done=0.3):
        q = lambda lo, hi: rng.randint(lo * 4, hi * 4) / 4.0
        R = [[[q(-4, 4) for _ in range(E)] for _ in range(T)] for _ in range(A)]
        V = [[[q(-4, 4) for _ in range(E)] for _ in range(T)] for _ in range(A)]
        D = [[[1.0 if rng.random() < p_done else 0.0 for _ in range(E)] for _ in range(T)] for _ in range(A)]
        nd = [[1 if rng.random() < p_done else 0 for _ in range(E)] for _ in range(A)]
        nv = [[rng.randint(0, 16) / 2.0 for _ in range(E)] for _ in range(A)]
        if dones is not None:           # explicit placement for column (0, 0): flags d_1 .. d_T
            for t in range(1, T):
                D[0][t][0] = float(dones[t - 1])
            nd[0][0] = int(dones[T - 1])
        return {"A": A, "R": R, "V": V, "D": D, "nv": nv, "nd": nd}

    def mk_case(self, rng, algo, T, E, groups, vec=True, exact=True, obs="vector", act="box2", net="plain", share=False, leak=True):
        if exact:
            g, l = rng.choice([0.0, 0.5, 1.0, 0.5, 1.0]), rng.choice([0.0, 0.5, 1.0, 0.5, 1.0])
        else:
            g, l = rng.choice([0.99, 0.9, 0.999]), rng.choice([0.95, 0.8, 0.97])
        c = {"algo": algo, "T": T, "E": E, "vec": vec, "exact": exact, "gamma": g, "lam": l, "obs": obs, "act": act,
             "net": net, "share": share, "bias": rng.choice([0.0, 0.5, -1.0, 2.0]), "groups": groups,
             "order": rng.randint(0, 1), "leak_seed": rng.randint(0, 10 ** 6) if leak else None}
        if algo == "ippo":
            nA = [g["A"] for g in groups]
            c["ids"] = make_ids(rng, nA)                       # order in agent_ids: not sorted in most cases
            c["dict_order"] = list(c["ids"])                   # insertion order of every per-agent dict handed to learn()
            if rng.random() < 0.5:
                rng.shuffle(c["dict_order"])
            c["ts"] = 128 if max(nA) > 8 else 64
            if INDEPENDENT_DICT_ORDERS and rng.random() < 0.3:
                c["dict_orders"] = [rng.sample(c["ids"], len(c["ids"])) for _ in range(8)]
        if rng.random() < 0.12:
            c["twice"] = True
        if rng.random() < 0.1:
            c["after_raise"] = True
        if not vec and rng.random() < 0.5:
            c["variant"] = "pyfloat"
        elif vec and algo == "ppo" and rng.random() < 0.2:
            c["variant"] = "torch"
        return c

    def with_mixed_types(self, rng, c):
        """per-step entries of rewards / dones / values get different Python / numpy types; the first entry has the
        narrower (integer) type and a later one is fractional, so a stacking that keeps the first dtype truncates"""
        T = c["T"]
        if T < 2:
            return c
        for g in c["groups"]:
            for a in range(g["A"]):
                for e in range(c["E"]):
                    g["R"][a][0][e] = float(rng.randint(-3, 3))                      # integral, held by an int type
                    g["R"][a][1][e] = rng.randint(-15, 15) / 4.0 + rng.choice([0.25, 0.5, 0.75])   # fractional
        narrow_v = rng.random() < 0.3
        if narrow_v:
            for g in c["groups"]:
                for a in range(g["A"]):
                    for e in range(c["E"]):
                        g["V"][a][0][e] = float(rng.randint(-3, 3))
                        g["V"][a][T - 1][e] = rng.randint(-15, 15) / 4.0 + 0.5
        fl = lambda: rng.choice(["pyfloat", "f32", "f64", "arr0d_f"])
        c["types"] = {"R": [rng.choice(["int", "i64", "i32", "i8", "arr0d_i"])] + [rng.choice([fl(), fl(), "int"]) for _ in range(T - 1)],
                      "D": [rng.choice(["bool", "int", "i64", "u8", "f32"])] + [rng.choice([fl(), "bool", "int"]) for _ in range(T - 1)],
                      "V": [rng.choice(["int", "i64"]) if narrow_v else rng.choice(["f32", "f64"])] + [fl() for _ in range(T - 1)]}
        c["types"]["R"][1] = fl()
        if rng.random() < 0.25:     # every reward integral and integer-typed: the stacked rewards are an integer array
            for g in c["groups"]:
                g["R"] = [[[float(rng.randint(-3, 3)) for _ in row] for row in m] for m in g["R"]]
            c["types"]["R"] = [rng.choice(["i8", "int", "i64", "i32"]) for _ in range(T)]
            c["all_int_rewards"] = True
        c.pop("variant", None)
        return c

    def with_magnitude(self, rng, c):
        """extreme but legal magnitudes: rewards and values scaled by 2^k (nothing in the estimate may clip or normalise)"""
        k = rng.choice([12, 20, -12])
        for g in c["groups"]:
            for f in ("R", "V"):
                g[f] = [[[x * 2.0 ** k for x in row] for row in m] for m in g[f]]
        c["exact"], c["bias"], c["magnitude"] = False, 0.0, k
        return c

    def with_epochs(self, rng, c):
        """run the real epoch / minibatch loop on this case: scripted shuffles, batch_size mostly not dividing the rows"""
        if c["act"] in ("discrete", "multidisc"):          # the body re-evaluates the stored actions: tags are not valid categories
            c["act"] = rng.choice(["box2", "box1"])
        Ns = [c["T"] * g["A"] * c["E"] for g in c["groups"]]
        if min(Ns) < 2:
            return c
        N0 = Ns[0]
        cand = [b for b in range(2, N0 + 1) if N0 % b] or [2]
        Bs = rng.choice(cand + [N0, 2, 3])
        U = rng.choice([2, 2, 3])
        c["epochs"] = {"B": Bs, "U": U, "perms": [[rng.sample(range(n), n) for _ in range(U)] for n in Ns]}
        c["leak_seed"] = None
        return c

    def generate(self, tier, rng):
        cases = []
        quick = tier == "quick"
        # (a) every placement of episode ends d_1..d_T (the last one is next_done) in one column
        for T in range(1, (5 if quick else 7) + 1):
            for pat in itertools.product([0, 1], repeat=T):
                cases.append(self.mk_case(rng, "ppo", T, 1, [self.rand_group(rng, T, 1, 1, True, pat)], vec=rng.random() < 0.7))
        for T in range(1, (4 if quick else 6) + 1):
            for pat in itertools.product([0, 1], repeat=T):
                A = rng.choice([2, 3]); E = rng.choice([1, 2])
                cases.append(self.mk_case(rng, "ippo", T, E, [self.rand_group(rng, T, A, E, True, pat)], vec=True))
        # (b) every small shape once (alignment depends on T, A, E only)
        for T, E in itertools.product(range(1, 5), range(1, 4)):
            cases.append(self.mk_case(rng, "ppo", T, E, [self.rand_group(rng, T, 1, E, True)]))
            if (T + E) % 2:
                self.with_epochs(rng, cases[-1])
            elif T >= 2:
                self.with_mixed_types(rng, cases[-1])
        for T, A, E in itertools.product(range(1, 4), range(1, 4), range(1, 4)):
            cases.append(self.mk_case(rng, "ippo", T, E, [self.rand_group(rng, T, A, E, True)]))
            if (T + A + E) % 2:
                self.with_epochs(rng, cases[-1])
            elif T >= 2 and E == 2:
                self.with_mixed_types(rng, cases[-1])
        # (b2) many agents sharing one policy: "agent_10" sorts before "agent_2"
        for A in ([11] if quick else [11, 12, 13]):
            for T in (1, 2):
                cases.append(self.mk_case(rng, "ippo", T, 1, [self.rand_group(rng, T, A, 1, True)]))
                cases[-1]["ids"] = [f"agent_{i}" for i in range(A)]
                cases[-1]["dict_order"] = list(cases[-1]["ids"])
        # (c) seeded
        n_ppo, n_ippo = (130, 170) if quick else (2500, 3500)
        for _ in range(n_ppo):
            T = rng.choice([1, 2, 3, 4, 5, 6, 7, 8]); exact = rng.random() < 0.6
            if not exact:
                T = rng.choice([2, 5, 9, 12, 16])
            vec = rng.random() < 0.8
            E = rng.choice([1, 2, 3, 4]) if vec else 1
            cases.append(self.mk_case(rng, "ppo", T, E, [self.rand_group(rng, T, 1, E, exact, p_done=rng.choice([0.15, 0.3, 0.6]))],
                                      vec=vec, exact=exact, obs=rng.choice(["vector", "vector", "vector", "dict", "tuple", "image"]),
                                      act=rng.choice(["box2", "box1", "discrete", "multidisc"]), net=rng.choice(["plain", "partial"]),
                                      share=rng.random() < 0.3))
            if rng.random() < 0.35:
                self.with_epochs(rng, cases[-1])
            if rng.random() < 0.25:
                self.with_mixed_types(rng, cases[-1])
            elif rng.random() < 0.12:
                self.with_magnitude(rng, cases[-1])
        for _ in range(n_ippo):
            T = rng.choice([1, 2, 2, 3, 3, 4, 5, 6]); exact = rng.random() < 0.6
            if not exact:
                T = rng.choice([2, 4, 7, 10])
            vec = rng.random() < 0.85
            E = rng.choice([1, 2, 3]) if vec else 1
            groups = [self.rand_group(rng, T, rng.choice([1, 2, 2, 3]), E, exact, p_done=rng.choice([0.15, 0.3, 0.6]))]
            if rng.random() < 0.3:
                groups.append(self.rand_group(rng, T, rng.choice([1, 2]), E, exact))
            cases.append(self.mk_case(rng, "ippo", T, E, groups, vec=vec, exact=exact,
                                      obs=rng.choice(["vector", "vector", "vector", "dict", "tuple", "image"]),
                                      act=rng.choice(["box2", "box1", "discrete", "multidisc"]), net=rng.choice(["plain", "partial"])))
            if rng.random() < 0.35:
                self.with_epochs(rng, cases[-1])
            if rng.random() < 0.25:
                self.with_mixed_types(rng, cases[-1])
            elif rng.random() < 0.12:
                self.with_magnitude(rng, cases[-1])
        # (d) the training loops with scripted episode ends: which flags reach learn()
        for _ in range(24 if quick else 200):
            ma = rng.random() < 0.5
            vec = rng.random() < 0.75
            E = rng.choice([1, 2, 3]) if vec else 1
            A = rng.choice([1, 2, 3]) if ma else 1
            T = rng.choice([2, 3, 4, 6]); chunks = rng.choice([1, 2])
            p = rng.choice([0.2, 0.5])
            flags = [[[rng.choice([1, 2, 3]) if rng.random() < p else 0 for _ in range(E)] for _ in range(A)] for _ in range(T * chunks)]
            cases.append({"algo": "loop_ippo" if ma else "loop_ppo", "T": T, "E": E, "A": A, "vec": vec, "chunks": chunks, "flags": flags})
        return cases

    # ---------- implementation
    def agent_for(self, case):
        nA = [g["A"] for g in case["groups"]]
        k = (case["algo"], case["obs"], case["act"], case["net"], case["share"], tuple(nA), case["order"], tuple(case.get("ids") or ()))
        if k in self._agents:
            return self._agents[k]
        nc = NC_PLAIN if case["net"] == "plain" else NC_PARTIAL
        if case["obs"] in ("dict", "tuple"):        # multi-input encoder: only the head is configured
            nc = {"head_config": {"hidden_size": [4]}} if case["net"] == "plain" else None
        if case["obs"] == "image":                  # convolutional encoder (rank-5 rollout tensors)
            nc = {"encoder_config": {"channel_size": [4], "kernel_size": [2], "stride_size": [1]}}
        nc = copy.deepcopy(nc)
        if case["algo"] == "ppo":
            ag = PPO(obs_space(case["obs"]), act_space(case["act"]), net_config=nc, share_encoders=case["share"],
                     batch_size=1, update_epochs=1)
            ids = None
        else:
            names = ["agent", "other"]
            ids = case.get("ids")
            if ids is None:                             # cases written before agent ids became part of the case
                ids = [f"{names[gi]}_{a}" for gi, n in enumerate(nA) for a in range(n)]
                if case["order"] == 1 and len(nA) > 1:      # interleave the two groups in agent_ids
                    ids = sorted(ids, key=lambda s: (int(s.split("_")[1]), s))
            gm = id_groups(ids)
            assert sorted(set(g for g, _ in gm.values())) == list(range(len(nA))) and \
                all(sum(1 for g, _ in gm.values() if g == gi) == n for gi, n in enumerate(nA)), (ids, nA)
            ag = IPPO([obs_space(case["obs"])] * len(ids), [act_space(case["act"])] * len(ids), ids, net_config=nc,
                      batch_size=1, update_epochs=1)
        self._agents[k] = (ag, ids)
        return ag, ids

    def critic_of(self, ag, case, gi):
        return ag.critic if case["algo"] == "ppo" else ag.critics[gi]

    def read_back(self, ag, case, gi, x0):
        """critic value of one next observation, computed on its own (independent of any batching order)"""
        o = mk_obs(case["obs"], [x0])
        with torch.no_grad():
            if case["algo"] == "ppo":
                v = ag.critic(ag.preprocess_observation(o))
            else:
                from agilerl.utils.algo_utils import preprocess_observation
                sp = list(ag.unique_observation_spaces.values())[gi]
                v = ag.critics[gi](preprocess_observation(o, sp, ag.device, ag.normalize_images))
        return float(v.reshape(-1)[0])

    def experiences(self, case, ids, data):
        """the tuple handed to learn(); data = groups with R,V,D,nv,nd"""
        T, E, vec = case["T"], case["E"], case["vec"]
        ok, ak = case["obs"], case["act"]
        ts = case.get("ts", 64)

        def per_agent(a, g):
            tg = lambda t: [tag(t, a, e, ts) for e in range(E)]
            sq = (lambda x: x) if vec else (lambda x: ({k: v[0] for k, v in x.items()} if isinstance(x, dict) else
                                                   (tuple(v[0] for v in x) if isinstance(x, tuple) else x[0])))
            st = [sq(mk_obs(ok, tg(t))) for t in range(T)]
            ac = [sq(mk_act(ak, tg(t))) for t in range(T)]
            lp = [sq(np.asarray(tg(t), dtype=np.float32)) for t in range(T)]
            rw = [sq(np.asarray(g["R"][a][t], dtype=np.float32)) for t in range(T)]
            dn = [sq(np.asarray(g["D"][a][t], dtype=np.float32)) for t in range(T)]
            vl = [sq(np.asarray(g["V"][a][t], dtype=np.float32)) for t in range(T)]
            ns = sq(mk_obs(ok, g["nv"][a]))
            nd = np.asarray(g["nd"][a], dtype=np.int8)
            if not vec and case["algo"] == "ppo":
                nd = nd[0]
            if case.get("variant") == "pyfloat" and not vec:        # plain envs return Python numbers
                rw = [float(x) for x in rw]
                if case["algo"] == "ppo":
                    dn = [float(x) for x in dn]
            if case.get("types"):           # per-step Python / numpy types differ inside one list (np.stack promotes them)
                rw = [cast_step(x, ty, vec) for x, ty in zip(rw, case["types"]["R"])]
                dn = [cast_step(x, ty, vec) for x, ty in zip(dn, case["types"]["D"])]
                vl = [cast_step(x, ty, vec) for x, ty in zip(vl, case["types"]["V"])]
            if case.get("variant") == "torch" and case["algo"] == "ppo":   # stack_experiences' torch.Tensor branch
                lp = [torch.as_tensor(np.asarray(x)) for x in lp]
                vl = [torch.as_tensor(np.asarray(x)) for x in vl]
            return st, ac, lp, rw, dn, vl, ns, nd
        if case["algo"] == "ppo":
            return per_agent(0, data[0])
        out = [dict() for _ in range(8)]
        gm = id_groups(ids)
        for aid in (case.get("dict_order") or ids):     # insertion order of the dicts, independent of agent_ids
            gi, a = gm[aid]
            for d, x in zip(out, per_agent(a, data[gi])):
                d[aid] = x
        if case.get("dict_orders"):                     # a different insertion order for each of the eight dicts
            out = [{k: d[k] for k in order} for d, order in zip(out, case["dict_orders"])]
        return tuple(out)

    def learn_capture(self, case, data):
        ag, ids = self.agent_for(case)
        ag.gamma, ag.gae_lambda = case["gamma"], case["lam"]
        ep = case.get("epochs")
        # default: one-row minibatches, the optimisation body is skipped.  "epochs" cases run the real epoch / minibatch
        # loop (scripted non-identity shuffles, batch_size not dividing the row count, several epochs) with the
        # optimizer steps switched off, so the networks stay what they are
        ag.batch_size, ag.update_epochs = (ep["B"], ep["U"]) if ep else (1, 1)
        mod = ppo_mod if case["algo"] == "ppo" else ippo_mod
        opts = [ag.optimizer] if case["algo"] == "ppo" else list(ag.actor_optimizers) + list(ag.critic_optimizers)
        for gi in range(len(data)):
            pin_critic(self.critic_of(ag, case, gi), case["bias"])
        nvs = [[[self.read_back(ag, case, gi, x) for x in row] for row in g["nv"]] for gi, g in enumerate(data)]
        caps = []
        orig = mod.get_experiences_samples

        def wrapper(idx, *exps):
            out = orig(idx, *exps)
            if not caps or caps[-1]["exps"][3] is not exps[3]:
                caps.append({"exps": exps, "mini": [], "body": []})
            caps[-1]["mini"].append((np.asarray(idx).tolist(), out))
            return out
        mod.get_experiences_samples = wrapper

        # what the minibatch body works on: the tensors that enter evaluate_actions (PPO) / preprocess_observation (IPPO)
        # and the locals of learn() next to them (skipped silently if a local has another name)
        def body_record(states, actions, fl):
            if not caps or "minibatch_idxs" not in fl:
                return
            idx = np.asarray(fl["minibatch_idxs"]).tolist()
            n = len(idx)
            rec = {"idx": idx, "obs": dec_obs(case["obs"], states, n)}
            acts = actions if actions is not None else fl.get("batch_actions")
            rec["act"] = dec_flat(acts.detach(), n) if acts is not None else None
            for key, name, f in (("lp", "batch_log_probs", dec_flat), ("adv", "batch_advantages", dec_num),
                                 ("ret", "batch_returns", dec_num), ("val", "batch_values", dec_num)):
                x = fl.get(name)
                try:
                    rec[key] = f(x.detach(), n) if x is not None else None
                except Exception:
                    rec[key] = "undecodable"
            caps[-1]["body"].append(rec)

        shuffles = {"n": 0, "bad": 0}
        orig_shuffle = np.random.shuffle
        orig_eval = getattr(ag, "evaluate_actions", None)
        orig_pre = getattr(mod, "preprocess_observation", None)
        if ep:
            U = ep["U"]

            def fake_shuffle(arr):
                c = shuffles["n"]; shuffles["n"] += 1
                try:
                    perm = ep["perms"][c // U][c % U]
                    assert len(perm) == len(arr)
                    arr[:] = arr[np.asarray(perm)]
                except Exception:
                    shuffles["bad"] += 1
                    orig_shuffle(arr)
            np.random.shuffle = fake_shuffle
            for o in opts:
                o.step = lambda *a, **k: None
            if case["algo"] == "ppo" and orig_eval is not None:
                def eval_wrapper(*a, **k):
                    try:
                        body_record(k.get("obs", a[0] if a else None), k.get("actions", a[1] if len(a) > 1 else None),
                                    sys._getframe(1).f_locals)
                    except Exception:
                        pass
                    return orig_eval(*a, **k)
                ag.evaluate_actions = eval_wrapper
            elif orig_pre is not None:
                def pre_wrapper(*a, **k):
                    try:
                        fl = sys._getframe(1).f_locals
                        if "minibatch_idxs" in fl:
                            body_record(a[0] if a else k.get("observation"), None, fl)
                    except Exception:
                        pass
                    return orig_pre(*a, **k)
                mod.preprocess_observation = pre_wrapper
        err = None
        exps_in = self.experiences(case, ids, data)
        if case.get("after_raise") and case["T"] >= 2:
            # a malformed rollout first (rewards one step short): whatever learn() does with it, the same agent must
            # then treat the well-formed rollout like any other
            bad = list(self.experiences(case, ids, data))
            bad[3] = ({k: v[:-1] for k, v in bad[3].items()} if isinstance(bad[3], dict) else bad[3][:-1])
            try:
                ag.learn(tuple(bad))
            except Exception:
                pass
            for gi in range(len(data)):
                pin_critic(self.critic_of(ag, case, gi), case["bias"])
            caps.clear()
            shuffles["n"] = 0; shuffles["bad"] = 0
        before = [snap(x) for x in exps_in]
        try:
            ag.learn(exps_in)
        except Exception as e:      # the learner raised on this rollout: part of the observation
            err = f"{type(e).__name__}: {str(e)[:300]}"
        finally:
            args_modified = [n_ for n_, b, x in zip(ARG_NAMES, before, exps_in) if snap(x) != b]
            mod.get_experiences_samples = orig
            np.random.shuffle = orig_shuffle
            if ep:
                for o in opts:
                    o.__dict__.pop("step", None)
                if case["algo"] == "ppo":
                    ag.__dict__.pop("evaluate_actions", None)
                elif orig_pre is not None:
                    mod.preprocess_observation = orig_pre
        if getattr(mod, "get_experiences_samples", None) is not orig:
            raise RuntimeError("could not restore get_experiences_samples")
        groups = []
        for cp in caps:
            exps = cp["exps"]
            n = int(exps[4].shape[0])
            dec = lambda ex: list(zip(dec_obs(case["obs"], ex[0], len(ex[4])), dec_flat(ex[1], len(ex[4])), dec_flat(ex[2], len(ex[4])),
                                      dec_num(ex[3], len(ex[4])), dec_num(ex[4], len(ex[4])), dec_num(ex[5], len(ex[4]))))
            rows = [list(r) for r in dec(exps)]
            mini_bad = 0
            # (a single-sample batch is never trained on: reshape_from_space drops its batch axis, skip it)
            extra = []
            if n > 1:       # the gather itself, on index sets larger than the one-row minibatches of this run
                r2 = random.Random(n * 7919 + (case.get("leak_seed") or 0))
                for _ in range(2):
                    idx = np.array(r2.sample(range(n), min(n, r2.randint(2, 6))))
                    extra.append((idx.tolist(), orig(idx, *exps)))
            for idx, out in ((cp["mini"] + extra) if n > 1 else []):
                got = [list(r) for r in dec(out)] if len(idx) else []
                if got != [rows[i] for i in idx]:
                    mini_bad += 1
            g_obs = {"n": n, "rows": rows, "minibatches": len(cp["mini"]), "minibatch_mismatch": mini_bad}
            if ep:
                g_obs["minis"] = [idx for idx, _ in cp["mini"]]
                g_obs["body"] = cp["body"]
            groups.append(g_obs)
        # the float32 arithmetic of learn() is exact only if the critic could be pinned to small dyadic values
        dyadic = all(float(v * 8).is_integer() and abs(v) <= 64 for g in nvs for row in g for v in row)
        return {"error": err, "groups": groups, "nv": nvs, "exact": bool(case["exact"] and dyadic),
                "shuffle_calls": shuffles["n"], "shuffle_bad": shuffles["bad"], "args_modified": args_modified}

    def run_loop(self, case):
        """one generation of the real training loop on a scripted env; learn() is wrapped to record what it is handed"""
        T, E, A, vec, chunks = case["T"], case["E"], case["A"], case["vec"], case["chunks"]
        ma = case["algo"] == "loop_ippo"
        nc = copy.deepcopy(NC_PARTIAL)
        if ma:
            ids = [f"agent_{i}" for i in range(A)]
            env = ScriptedMAEnv(ids, E, case["flags"], vec)
            ag = IPPO([env.osp] * A, [env.asp] * A, ids, net_config=nc, learn_step=T * E, batch_size=1, update_epochs=1)
        else:
            ids = None
            env = ScriptedEnv(E, [f[0] for f in case["flags"]], vec)
            ag = PPO(env.observation_space, env.action_space, net_config=nc, learn_step=T * E, batch_size=1, update_epochs=1)
        calls = []
        real = ag.learn

        def rec(exps):
            st, ac, lp, rw, dn, vl, ns, nd = exps
            tg = lambda o: [int(v) for v in np.asarray(o, dtype=np.float64).reshape(-1, 3)[:, 0]]
            fl = lambda x: [float(v) for v in np.asarray(x, dtype=np.float64).reshape(-1)]
            if ma:
                c = {"dones": [[fl(d) for d in dn[a]] for a in ids], "next_done": [fl(nd[a]) for a in ids],
                     "states": [[tg(o) for o in st[a]] for a in ids], "next_state": [tg(ns[a]) for a in ids]}
            else:
                c = {"dones": [[fl(d) for d in dn]], "next_done": [fl(nd)], "states": [[tg(o) for o in st]], "next_state": [tg(ns)]}
            try:
                out = real(exps)
                c["learn_error"] = None
            except Exception as e:
                c["learn_error"] = f"{type(e).__name__}: {str(e)[:200]}"
                out = {k: 0.0 for k in ag.shared_agent_ids} if ma else 0.0
            calls.append(c)
            return out
        ag.learn = rec
        ag.test = lambda *a, **k: 0.0
        import contextlib, io
        with contextlib.redirect_stdout(io.StringIO()), contextlib.redirect_stderr(io.StringIO()):
            fn = train_multi_agent_on_policy if ma else train_on_policy
            fn(env, "scripted", "IPPO" if ma else "PPO", [ag], max_steps=1, evo_steps=chunks * T * E, verbose=False, wb=False)
        return {"error": None, "calls": calls, "steps": env.k}

    def run_impl(self, case):
        if case["algo"].startswith("loop"):
            return self.run_loop(case)
        if not hasattr(ppo_mod, "get_experiences_samples") or not hasattr(ippo_mod, "get_experiences_samples"):
            raise RuntimeError("entry point get_experiences_samples not found in agilerl.algorithms.ppo / ippo")
        obs = self.learn_capture(case, case["groups"])
        if case.get("twice") and obs["error"] is None:      # the same rollout again on the same agent: same rows
            again = self.learn_capture(case, case["groups"])
            obs["second_call_same"] = bool(again["error"] is None and
                                           [g["rows"] for g in again["groups"]] == [g["rows"] for g in obs["groups"]])
        # no-leak, stated on the implementation: change everything after an episode end (and every other
        # column) and look at the estimates before it
        obs["leak"] = None
        if case.get("leak_seed") is not None and obs["error"] is None:
            pick = self.leak_pick(case)
            if pick is not None:
                gi, a, e, k = pick
                rng = random.Random(case["leak_seed"])
                data2 = []
                for gj, g in enumerate(case["groups"]):
                    h = self.rand_group(rng, case["T"], g["A"], case["E"], True)
                    if gj == gi:
                        for t in range(k + 1):
                            for f in ("R", "V", "D"):
                                h[f][a][t][e] = g[f][a][t][e]
                        if k + 1 < case["T"]:
                            h["D"][a][k + 1][e] = 1.0
                        else:
                            h["nd"][a][e] = 1
                    data2.append(h)
                o2 = self.learn_capture(case, data2)
                obs["leak"] = {"pick": [gi, a, e, k], "error": o2["error"], "groups": o2["groups"], "nv": o2["nv"],
                               "exact": o2["exact"], "data": data2}
        return obs

    def leak_pick(self, case):
        """first (group, agent, env, k) with an episode end right after step k (d_{k+1} = 1)"""
        T = case["T"]
        for gi, g in enumerate(case["groups"]):
            for a in range(g["A"]):
                for e in range(case["E"]):
                    for k in range(T):
                        d = g["D"][a][k + 1][e] if k + 1 < T else g["nd"][a][e]
                        if d == 1:
                            return gi, a, e, k
        return None

    # ---------- model term
    def known_pinned(self, case, obs):
        """does the observation show exactly the pinned next_done ordering (known finding)?"""
        return any(v.signature == "ippo:next_done-order" for v in self.oracle(case, obs))

    def loop_cols(self, case, obs):
        """[(chunk, agent, env, env flags of the chunk, recorded dones, recorded next_done)]"""
        T = case["T"]
        out = []
        for ci, c in enumerate(obs["calls"]):
            for a in range(case["A"]):
                for e in range(case["E"]):
                    fl = [1 if case["flags"][ci * T + t][a][e] else 0 for t in range(T)]
                    try:
                        ds = [c["dones"][a][t][e] for t in range(len(c["dones"][a]))]
                        nd = c["next_done"][a][e]
                    except IndexError:
                        ds, nd = None, None
                    out.append((ci, a, e, fl, ds, nd))
        return out

    def coq_term(self, case, obs):
        if case["algo"].startswith("loop"):
            if len(obs["calls"]) != case["chunks"]:
                return "false"
            ts = []
            for ci, a, e, fl, ds, nd in self.loop_cols(case, obs):
                if ds is None:
                    return "false"
                ql = lambda xs: "[" + "; ".join(coq_Q(x) for x in xs) + "]"
                ts.append(f"check_dones {ql(fl)} {ql(ds)} {coq_Q(nd)}")
            return "(" + " && ".join(f"({t})" for t in ts) + ")%bool"
        if obs["error"] is not None or len(obs["groups"]) != len(case["groups"]):
            return None
        T, E = case["T"], case["E"]
        tol = "0" if obs["exact"] else coq_Q(F(case_tol(case)))
        g, l = coq_Q(case["gamma"]), coq_Q(case["lam"])
        ql = lambda xs: "[" + "; ".join(coq_Q(x) for x in xs) + "]"
        qm = lambda m: "[" + "; ".join(ql(r) for r in m) + "]"
        rows = lambda rs: "[" + "; ".join(f"({r[0]}, {r[1]}, {r[2]}, {coq_Q(r[3])}, {coq_Q(r[4])}, {coq_Q(r[5])})%Z" for r in rs) + "]"
        pinned = case["algo"] == "ippo" and self.known_pinned(case, obs)
        terms = []
        for gi, (gr, ob) in enumerate(zip(case["groups"], obs["groups"])):
            nv = obs["nv"][gi]
            if any(r[0] == BAD or r[1] == BAD or r[2] == BAD for r in ob["rows"]):
                return "false"
            if case["algo"] == "ppo":
                terms.append(f"check_ppo {'true' if case['vec'] else 'false'} {T} {E} {g} {l} {qm(gr['R'][0])} {qm(gr['V'][0])} "
                             f"{qm(gr['D'][0])} {ql(nv[0])} {ql(gr['nd'][0])} {tol} {rows(ob['rows'])}")
            else:
                q3 = lambda x: "[" + "; ".join(qm(m) for m in x) + "]"
                terms.append(f"check_ippo_s {case.get('ts', 64)} {'true' if pinned else 'false'} {gr['A']} {E} {T} {g} {l} {q3(gr['R'])} {q3(gr['V'])} "
                             f"{q3(gr['D'])} {qm(nv)} {qm(gr['nd'])} {tol} {rows(ob['rows'])}")
            ep = case.get("epochs")
            if ep and obs.get("shuffle_calls") == ep["U"] * len(case["groups"]) and not obs.get("shuffle_bad"):
                nl = lambda xs: "[" + "; ".join(str(int(x)) for x in xs) + "]"
                nn = lambda m: "[" + "; ".join(nl(r) for r in m) + "]"
                terms.append(f"check_minis {ob['n']} {ep['B']} {nn(ep['perms'][gi])}%nat {nn(ob['minis'])}%nat")
        return "(" + " && ".join(f"({t})" for t in terms) + ")%bool"

    # ---------- oracle: the property stated directly on what learn() handed to its minibatch loop
    def oracle_loop(self, case, obs):
        out = []
        algo, T, E, A = case["algo"], case["T"], case["E"], case["A"]
        where = f"{algo} T={T} agents={A} envs={E} vec={case['vec']}"
        if len(obs["calls"]) != case["chunks"] or obs["steps"] != T * case["chunks"]:
            return [Violation("loop-shape", f"{algo}:learn-calls", f"{where}: {len(obs['calls'])} learn calls / {obs['steps']} env steps, "
                              f"expected {case['chunks']} / {T * case['chunks']}")]
        for ci, a, e, fl, ds, nd in self.loop_cols(case, obs):
            want = [0] + fl[:-1]
            if ds is None or [int(x) for x in ds] != want or int(nd) != fl[-1] or any(float(x) not in (0.0, 1.0) for x in ds):
                out.append(Violation("done-convention", f"{algo}:done-convention",
                                     f"{where}: rollout {ci}, agent {a}, env {e}: the environment ended episodes at steps "
                                     f"{[t for t, x in enumerate(fl) if x]}; learn() was handed dones={ds} next_done={nd}, expected dones={want} "
                                     f"next_done={fl[-1]} (flag of the previous step, zeros first, last flag as next_done)"))
                break
        mult = 64 if algo == "loop_ippo" else 8
        for ci, c in enumerate(obs["calls"]):
            for a in range(A):
                want = [[(ci * T + t) * mult + (a * 8 if algo == "loop_ippo" else 0) + e + 1 for e in range(E)] for t in range(T)]
                wn = [(ci * T + T) * mult + (a * 8 if algo == "loop_ippo" else 0) + e + 1 for e in range(E)]
                if c["states"][a] != want or c["next_state"][a] != wn:
                    out.append(Violation("rollout-order", f"{algo}:states-order",
                                         f"{where}: rollout {ci}, agent {a}: states {c['states'][a]} next_state {c['next_state'][a]}, expected {want} / {wn}"))
                    break
            if c["learn_error"] is not None:
                out.append(Violation("learn-completes", f"{algo}:learn-raises:vec={case['vec']}",
                                     f"{where}: learn() raised on the rollout recorded by the training loop: {c['learn_error']}"))
                break
        return out

    def oracle(self, case, obs):
        if case["algo"].startswith("loop"):
            return self.oracle_loop(case, obs)
        out = []
        algo, T, E = case["algo"], case["T"], case["E"]
        exact = bool(obs.get("exact", case["exact"]))
        ctol = case_tol(case)
        shape = f"T={T},A={case['groups'][0]['A']},E={E}"
        if obs["error"] is not None:
            nmin = min(T * g["A"] * E for g in case["groups"])
            sig = f"{algo}:learn-raises:single-sample" if nmin == 1 else (f"{algo}:learn-raises:T=1" if T == 1 else f"{algo}:learn-raises")
            return [Violation("learn-completes", sig, f"{algo}.learn raised on a rollout with {shape}, vec={case['vec']}: {obs['error']}")]
        if obs.get("args_modified"):
            out.append(Violation("arguments-unmodified", f"{algo}:arguments-modified:{obs['args_modified'][0]}",
                                 f"{algo}.learn {shape}: the caller's {obs['args_modified']} (lists / dicts / arrays handed to learn) were "
                                 f"changed by the call"))
        if obs.get("second_call_same") is False:
            out.append(Violation("repeatable", f"{algo}:second-call-differs",
                                 f"{algo}.learn {shape}: the same rollout handed to the same agent a second time gave other rows"))
        if len(obs["groups"]) != len(case["groups"]):
            return out + [Violation("rows-captured", f"{algo}:rows-not-captured",
                              f"expected {len(case['groups'])} calls series of get_experiences_samples, saw {len(obs['groups'])}")]
        for gi, (gr, ob) in enumerate(zip(case["groups"], obs["groups"])):
            A = gr["A"]
            nv = obs["nv"][gi]
            ref, ref_p = {}, {}
            for a in range(A):
                for e in range(E):
                    colf = lambda M: [M[a][t][e] for t in range(T)]
                    ref[(a, e)] = ref_gae(case["gamma"], case["lam"], colf(gr["R"]), colf(gr["V"]), colf(gr["D"]), nv[a][e], gr["nd"][a][e])
                    j = a * E + e           # pinned IPPO: next_done read in (env, agent) order
                    ref_p[(a, e)] = ref_gae(case["gamma"], case["lam"], colf(gr["R"]), colf(gr["V"]), colf(gr["D"]), nv[a][e],
                                            gr["nd"][j % A][j // A])
            rows = ob["rows"]
            if ob["n"] != T * A * E or len(rows) != T * A * E:
                out.append(Violation("rows-complete", f"{algo}:row-count", f"{shape}: {ob['n']} rows for {T*A*E} samples"))
                continue
            seen = set()
            bad_tags, bad_val, bad_adv, bad_ret, pinned_ok = [], [], [], [], True
            for r, (o, ac, lp, adv, ret, val) in enumerate(rows):
                if not (o == ac == lp) or o == BAD or o < 1:
                    bad_tags.append((r, o, ac, lp)); continue
                t, a, e = untag(o, case.get("ts", 64))
                if not (t < T and a < A and e < E) or (t, a, e) in seen:
                    bad_tags.append((r, o, ac, lp)); continue
                seen.add((t, a, e))
                if F(val) != F(gr["V"][a][t][e]):
                    bad_val.append((r, (t, a, e), val, gr["V"][a][t][e]))
                if not close(adv, ref[(a, e)][t], exact, ctol):
                    bad_adv.append((r, (t, a, e), adv, float(ref[(a, e)][t])))
                    if not close(adv, ref_p[(a, e)][t], exact, ctol):
                        pinned_ok = False
                elif not close(ret, ref[(a, e)][t] + F(gr["V"][a][t][e]), exact, ctol):
                    bad_ret.append((r, (t, a, e), ret, float(ref[(a, e)][t] + F(gr["V"][a][t][e]))))
            where = f"{algo} group {gi} {shape} vec={case['vec']} gamma={case['gamma']} lambda={case['lam']}"
            if bad_tags:
                out.append(Violation("rows-aligned", f"{algo}:rows:obs-action-logprob",
                                     f"{where}: rows whose observation/action/old-log-prob tags differ or repeat (row, obs, act, lp): {bad_tags[:6]}"))
            if bad_val:
                out.append(Violation("rows-aligned", f"{algo}:rows:value",
                                     f"{where}: old value not that of the row's (t,agent,env) (row, (t,a,e), got, expected): {bad_val[:6]}"))
            if bad_adv:
                # are the estimates right but on the wrong rows?
                want = sorted(float(x) for col in ref.values() for x in col)
                got = sorted(r[3] for r in rows)
                moved = all(close(x, y, exact, ctol) for x, y in zip(got, want))
                if algo == "ippo" and pinned_ok and not bad_val and not bad_tags and A >= 2 and E >= 2:
                    out.append(Violation("gae-definition", "ippo:next_done-order",
                                         f"{where}: advantages use next_done of another (agent, env): next_done is laid out (env, agent) "
                                         f"while rewards/values are laid out (agent, env) (row, (t,a,e), got, expected): {bad_adv[:6]}"))
                elif moved:
                    out.append(Violation("rows-aligned", f"{algo}:rows:advantage",
                                         f"{where}: advantages are the right numbers on the wrong rows (row, (t,a,e), got, expected): {bad_adv[:6]}"))
                else:
                    out.append(Violation("gae-definition", f"{algo}:gae-definition",
                                         f"{where}: advantage differs from the recursion of the property (row, (t,a,e), got, expected): {bad_adv[:6]}"))
            if bad_ret:
                out.append(Violation("returns", f"{algo}:returns", f"{where}: return != advantage + value (row, (t,a,e), got, expected): {bad_ret[:6]}"))
            if ob["minibatch_mismatch"]:
                out.append(Violation("rows-aligned", f"{algo}:minibatch-rows",
                                     f"{where}: {ob['minibatch_mismatch']} minibatches do not hold the rows at their indices"))
            ep = case.get("epochs")
            if ep and not (bad_tags or bad_val or bad_adv or bad_ret):
                N, Bs, U = ob["n"], ep["B"], ep["U"]
                per = -(-N // Bs)
                minis = ob.get("minis", [])
                # every epoch hands each row to exactly one minibatch; each old log-prob / estimate / value in a minibatch
                # sits next to the observation and action of its own row
                cov = []
                for k in range(0, len(minis), per):
                    flat = sorted(i for mb in minis[k:k + per] for i in mb)
                    if flat != list(range(N)) or any(len(mb) > Bs or not mb for mb in minis[k:k + per]):
                        cov.append((k // per, minis[k:k + per]))
                if len(minis) != U * per or cov:
                    out.append(Violation("minibatch-coverage", f"{algo}:minibatch-coverage",
                                         f"{where}: batch_size={Bs} update_epochs={U} rows={N}: {len(minis)} minibatches (expected {U * per}); "
                                         f"epochs whose minibatches are not a partition of the rows: {cov[:2]}"))
                bad_body = []
                for bi, b in enumerate(ob.get("body", [])):
                    for j, i in enumerate(b["idx"]):
                        if i >= len(rows):
                            bad_body.append((bi, j, "index out of range")); continue
                        want = rows[i]
                        got = [b["obs"][j], b["act"][j] if b["act"] else None, b["lp"][j] if isinstance(b["lp"], list) else None,
                               b["adv"][j] if isinstance(b["adv"], list) else None, b["ret"][j] if isinstance(b["ret"], list) else None,
                               b["val"][j] if isinstance(b["val"], list) else None]
                        if any(x == "undecodable" for x in (b["lp"], b["adv"], b["ret"], b["val"])) or \
                                any(g_ is not None and g_ != w for g_, w in zip(got, want)):
                            bad_body.append((bi, j, got, want))
                if bad_body:
                    out.append(Violation("rows-aligned", f"{algo}:minibatch-body-rows",
                                         f"{where}: batch_size={Bs}: inside the minibatch body the tensors (obs, action, old log-prob, advantage, return, "
                                         f"value) are not those of the minibatch's rows (minibatch, position, got, row): {bad_body[:4]}"))
                n_body = sum(1 for mb in minis if len(mb) > 1)
                if ob.get("body") is not None and len(ob["body"]) not in (0, n_body):
                    out.append(Violation("rows-aligned", f"{algo}:minibatch-body-count",
                                         f"{where}: {len(ob['body'])} minibatch bodies observed for {n_body} minibatches of more than one row"))
        # no-leak
        lk = obs.get("leak")
        if lk is not None and not out:
            gi, a, e, k = lk["pick"]
            # the second rollout is an input like any other: if it shows a violation by itself, report that one
            case2 = dict(case); case2["groups"] = lk["data"]; case2["leak_seed"] = None
            out2 = self.oracle(case2, {"error": lk["error"], "groups": lk["groups"], "nv": lk["nv"], "exact": lk["exact"], "leak": None})
            if out2:
                for v in out2:
                    v.case = case2
                    v.obs = {"error": lk["error"], "groups": lk["groups"], "nv": lk["nv"], "exact": lk["exact"], "leak": None}
                out += out2
            else:
                def by_tag(rows):
                    return {r[0]: r for r in rows}
                r1, r2 = by_tag(obs["groups"][gi]["rows"]), by_tag(lk["groups"][gi]["rows"])
                diff = []
                for t in range(k + 1):
                    x, y = r1.get(tag(t, a, e, case.get("ts", 64))), r2.get(tag(t, a, e, case.get("ts", 64)))
                    # bit-identical, unless the per-step number types differ between the two rollouts (then the stacked dtype,
                    # hence the float width of the arithmetic, may differ): tolerance
                    same = (lambda u, v: u == v) if not case.get("types") else (lambda u, v: close(u, v, False))
                    if x is None or y is None or not same(x[3], y[3]) or not same(x[4], y[4]):
                        diff.append((t, x, y))
                if diff:
                    out.append(Violation("no-leak", f"{algo}:no-leak",
                                         f"{algo} {shape}: episode of (agent {a}, env {e}) ends after step {k}; changing rewards/values/dones "
                                         f"after it (and the other columns) changed the estimates before it: {diff[:4]}"))
        return out

    # ---------- evidence helpers
    def placement(self, case):
        if case["algo"].startswith("loop"):
            T = case["T"]
            return [[[1 if case["flags"][ci * T + t][a][e] else 0 for t in range(T)] for e in range(case["E"])]
                    for ci in range(case["chunks"]) for a in range(case["A"])]
        return [[[int(g["D"][a][t][e]) for t in range(1, case["T"])] + [int(g["nd"][a][e])] for e in range(case["E"])]
                for g in case["groups"] for a in range(g["A"])]

    def key(self, case):
        if case["algo"].startswith("loop"):
            return super().key({k: case[k] for k in ("algo", "T", "E", "A", "vec", "chunks")} | {"d": self.placement(case)})
        return super().key({"algo": case["algo"], "T": case["T"], "E": case["E"], "A": [g["A"] for g in case["groups"]],
                            "vec": case["vec"], "d": self.placement(case)})

    def nontrivial(self, case, obs):
        return any(any(col[:-1]) for ag in self.placement(case) for col in ag)

    def classify(self, case, obs):
        if case["algo"].startswith("loop"):
            labs = [f"algo={case['algo']}", f"T={case['T']}", f"E={case['E']}", f"A={case['A']}", f"vec={case['vec']}", f"rollouts={case['chunks']}"]
            if self.nontrivial(case, obs):
                labs.append("episode-end-inside")
            return labs
        A = case["groups"][0]["A"]
        labs = [f"algo={case['algo']}", f"T={case['T'] if case['T'] <= 8 else '>8'}", f"E={case['E']}", f"A={A}",
                f"vec={case['vec']}", f"exact={case['exact']}", f"obs={case['obs']}", f"act={case['act']}", f"net={case['net']}",
                f"groups={len(case['groups'])}"]
        pl = self.placement(case)
        if self.nontrivial(case, obs):
            labs.append("episode-end-inside")
        if any(col[0] for ag in pl for col in ag if len(col) > 1):
            labs.append("episode-end-after-first-step")
        if any(col[-1] for ag in pl for col in ag):
            labs.append("next_done=1")
        if obs.get("leak"):
            labs.append("no-leak-second-run")
        if case.get("epochs"):
            ep = case["epochs"]
            N0 = case["T"] * A * case["E"]
            labs += ["epochs-mode", f"update_epochs={ep['U']}",
                     "batch_size-divides-rows" if N0 % ep["B"] == 0 else "batch_size-does-not-divide-rows"]
            if N0 % ep["B"] == 1:
                labs.append("last-minibatch-has-one-row")
            if any(g.get("body") for g in obs.get("groups", [])):
                labs.append("minibatch-body-observed")
        if case.get("variant"):
            labs.append(f"variant={case['variant']}")
        for flag in ("twice", "after_raise"):
            if case.get(flag):
                labs.append(flag)
        if case.get("magnitude") is not None:
            labs.append(f"magnitude=2^{case['magnitude']}")
        if case.get("all_int_rewards"):
            labs.append("all-rewards-integer-typed")
        if case.get("types"):
            ty = case["types"]
            labs += ["mixed-step-types", f"first-reward-type={ty['R'][0]}", f"first-done-type={ty['D'][0]}", f"first-value-type={ty['V'][0]}"]
        if obs["error"] is not None:
            labs.append("learn-raised")
        if A >= 2 and case["T"] >= 2:
            labs.append("ordering-sensitive(A>=2,T>=2)")
        if case["algo"] == "ippo" and case.get("ids"):
            ids = case["ids"]
            per = {}
            for x in ids:
                per.setdefault(x.rsplit("_", 1)[0], []).append(x)
            if any(v != sorted(v) for v in per.values()):
                labs.append("agent-ids-not-in-sorted-order")
            if case.get("dict_order") != ids:
                labs.append("dict-insertion-order!=agent_ids")
            if A > 8:
                labs.append("A>8")
        if case["algo"] == "ppo" and case["E"] >= 2 and case["T"] >= 2:
            labs.append("ordering-sensitive(E>=2,T>=2)")
        return labs

    def neighbours(self, case, rng):
        if case["algo"].startswith("loop"):
            return
        for i in range(4):
            c = dict(case)
            c["groups"] = [self.rand_group(rng, case["T"], g["A"], case["E"], True, p_done=0.4) for g in case["groups"]]
            c["exact"] = True
            c["gamma"], c["lam"] = rng.choice([0.5, 1.0]), rng.choice([0.5, 1.0])
            yield c


if __name__ == "__main__":
    sys.exit(vlib.run_check(C17()))
