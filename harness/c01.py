"""C01 — a cloned agent is a faithful and fully independent copy of its parent.

Shadow execution (DESIGN 8.0 / C01): a seeded history of learn / score / clone / mutation / select / discard is
applied to a real population of tiny agents; after every operation a snapshot is taken (alias partition over named
slots, value fingerprints, structure).  The Evo model (coq/theories/Evo) runs the same history inside Coq and is
compared with the snapshots (C01/Check.v); the oracle below states the property directly on the snapshots.
"""
from __future__ import annotations

import gc
import json
import os
import random
import sys

import vlib
from vlib import Violation

import evo

EXEMPT_DIFF = ()  # no slot class is exempt from the frame clause


def slot_cls_of(name, cls):
    return cls


class C01(vlib.Driver):
    pid = "C01"
    coq_dirs = ("Evo",)
    preamble = ("From Coq Require Import NArith QArith.\nFrom AgileV Require Import Evo.Heap Evo.Evo C01.Check.\n"
                "Open Scope N_scope.")
    rule = ("history = (algorithm, space family, shared/unshared encoders, net_config kind, op-kind sequence) over "
            "{learn, score, clone, 5 mutation kinds, select, discard}; every history ends by training every member of the "
            "final population in turn.  Distinct = distinct key.  Non-trivial = >= 1 learn, >= 1 clone/mutation/select and a "
            "later learn on a different agent.")
    trusted_base = ["hand-written model coq/theories/Evo/{Heap,Evo}.v",
                    "correspondence harness harness/evo.py + harness/c01.py (slot extraction through state_dict/data_ptr/id, "
                    "value fingerprints, forced mutation kinds, scripted tournament draws)"]
    assumptions = ["torch copy/alias semantics (module.load_state_dict copies values, optimizer.load_state_dict aliases the "
                   "tensors of the dict it is given, deepcopy allocates) are parameters of the model validated by K only",
                   "the numerical effect of a gradient step / noise is opaque (fresh content id); equal values => equal "
                   "behaviour relies on torch being deterministic on CPU under equal seeds (checked by the oracle)",
                   "accelerator / torch.compile paths are not exercised"]
    shard = 6

    # ------------------------------------------------------------------ generation
    def generate(self, tier, rng):
        cases = []
        algos = evo.ALGOS

        def history(nag, L, rng, OU=False):
            ops, n, last_clone = [], nag, None
            has_learn = False
            for _ in range(L):
                r = rng.random()
                if r < 0.30:
                    ops.append(["learn", rng.randrange(n), rng.randrange(1000)]); has_learn = True
                elif r < 0.38:
                    if OU and rng.random() < 0.6:
                        ops.append(rng.choice([["explore", rng.randrange(n), rng.randrange(1000)], ["reset_noise", rng.randrange(n)]]))
                    else:
                        ops.append(["score", rng.randrange(n), rng.randrange(100)])
                elif r < 0.66 and n < 4:
                    p = rng.randrange(n)
                    ops.append(["clone", p, rng.choice([None, 10 + n])]); n += 1
                    if rng.random() < 0.5:   # parent and clone act on the same observation under the same seed
                        s = rng.randrange(1000)
                        ops.append(["act", p, s]); ops.append(["act", n - 1, s, p])
                    if rng.random() < 0.6:   # parent and clone learn from the same batches under the same seeds (1..3 in a row)
                        for _ in range(rng.choice([1, 2, 3])):
                            s = rng.randrange(1000)
                            ops.append(["learn", p, s]); ops.append(["learn", n - 1, s, p]); has_learn = True
                elif r < 0.86:
                    ops.append(["mutate", rng.randrange(n), rng.choice(evo.MUT_KINDS), rng.randrange(1000)])
                elif r < 0.93 and n >= 2:
                    k = rng.choice([2, 3]) if n >= 2 else 2
                    fit = rng.sample(range(1, 50), n)
                    el = rng.random() < 0.7
                    draws = [rng.randrange(n) for _ in range(k - (1 if el else 0))]
                    for i in range(n):      # the evaluation that precedes a tournament: one (distinct) fitness per agent
                        ops.append(["score", i, fit[i]])
                    ops.append(["select", draws, el]); n = k + 1
                elif n >= 2:
                    ops.append(["discard", rng.randrange(n)]); n -= 1
            for i in range(n):     # every member of the final population is trained afterwards
                ops.append(["learn", i, rng.randrange(1000)])
            return ops

        def pre_noise(algo):
            """exploration in training mode before the clone: the OU-noise state (arrays for DDPG/TD3, LISTS of tensors for
            MADDPG/MATD3) is non-zero when the copy is made"""
            return [["explore", 0, 1], ["explore", 0, 2]] if algo in evo.OU_ALGOS else []

        def noise_ops(algo):
            """... then one of the two zeroes its noise state in place / explores on: the other's must not move"""
            if algo not in evo.OU_ALGOS:
                return []
            return [["reset_noise", 0], ["explore", 2, 3], ["explore", 2, 4], ["reset_noise", 2], ["explore", 0, 5]]

        def custom_cases(pairs):
            """agents built from plain torch networks wrapped by MakeEvolvable (actor_network=...): clone, mutate the clone's
            architecture, then look back at the parent and clone the parent again (its init dict must be its own)"""
            out = []
            for algo, fam in pairs:
                arch = "arch" if fam == "vector" else "param"    # (MakeEvolvable CNN channel mutations: see design.d/C01.md)
                out.append({"algo": algo, "family": fam, "share": False, "netcfg": "custom", "seed": 11, "pop": 2,
                            "ops": [["learn", 0, 1], ["clone", 0, None]] + [["mutate", 2, arch, 40 + i] for i in range(4)] +
                                   [["clone", 0, 8], ["act", 0, 2], ["act", 3, 2, 0], ["learn", 0, 5], ["learn", 3, 5, 0],
                                    ["mutate", 0, arch, 51], ["mutate", 0, arch, 52], ["clone", 2, 9], ["act", 2, 3], ["act", 4, 3, 2],
                                    ["learn", 2, 6], ["learn", 4, 6, 2], ["mutate", 1, "act", 3], ["clone", 0, None],
                                    ["learn", 0, 7], ["learn", 5, 7, 0], ["learn", 1, 8], ["learn", 3, 9]]})
            return out

        def add(algo, family, share, netcfg, L, seed, nag=2, wrapper=False):
            ops = history(nag, L, rng, OU=algo in evo.OU_ALGOS)
            c = {"algo": algo, "family": family, "share": share, "netcfg": netcfg, "seed": seed, "pop": nag, "ops": ops}
            if wrapper:
                c["wrapper"] = True
            cases.append(c)

        # boundary histories, every algorithm: learn; clone; train both on the same batch; train clone; look back
        for algo in algos:
            shares = [False, True] if algo in evo.SHARE_CAPABLE else [False]
            for share in shares:
                cases.append({"algo": algo, "family": "vector", "share": share, "netcfg": "partial", "seed": 1, "pop": 2, "tags": True,
                              # an ODD number of learn steps before the first clone, then parent and clone learn from
                              # policy_freq + 1 = 3 consecutive identical batches (delayed-update counters must be copied)
                              "ops": [["learn", 0, 1], ["learn", 0, 2], ["learn", 0, 9], ["score", 0, 3]] + pre_noise(algo) + [["clone", 0, None],
                                      ["act", 0, 5], ["act", 2, 5, 0], ["learn", 0, 3], ["learn", 2, 3, 0],
                                      ["learn", 0, 4], ["learn", 2, 4, 0], ["learn", 0, 6], ["learn", 2, 6, 0]] + noise_ops(algo) + [
                                      ["mutate", 1, "arch", 5], ["clone", 1, 9], ["learn", 1, 8], ["learn", 3, 8, 1],
                                      ["mutate", 2, "param", 6], ["score", 0, 3], ["score", 1, 9], ["score", 2, 4],
                                      ["score", 3, 1], ["select", [1], True], ["learn", 0, 1], ["learn", 1, 2],
                                      ["learn", 2, 3]]})
        if os.environ.get("VERIF_C01_ONLY") == "boundary":   # developer shortcut for the mutation self-test (never registered)
            return cases
        if tier == "quick":
            for algo in algos:
                add(algo, "vector", False, rng.choice(["partial", "full", "none"]), 6, rng.randrange(100))
            for algo in ("DQN", "PPO", "DDPG"):
                for fam in ("image", "dict", "discrete"):
                    add(algo, fam, algo != "DQN" and rng.random() < 0.5, "partial", 5, rng.randrange(100))
            for algo in evo.SHARE_CAPABLE:
                add(algo, "vector", True, "partial", 6, rng.randrange(100))
            for algo in ("DQN", "DDPG"):       # AgentWrapper.clone (RSNorm supports the off-policy single-agent algorithms)
                add(algo, "vector", False, "partial", 6, rng.randrange(100), wrapper=True)
            cases += custom_cases([("DQN", "vector"), ("DQN", "image")])
            for algo in ("DQN", "NeuralUCB", "CQN"):     # extreme magnitudes (1e30, denormal, -0.0, inf, NaN) must be copied bit for bit
                cases.append({"algo": algo, "family": "vector", "share": False, "netcfg": "partial", "seed": 9, "pop": 2,
                              "ops": [["learn", 0, 1], ["poke", 0, 1], ["clone", 0, None], ["clone", 2, 8], ["poke", 1, 2],
                                      ["score", 0, 5], ["score", 1, 9], ["score", 2, 3], ["score", 3, 1], ["select", [1, 0], True],
                                      ["clone", 0, None], ["poke", 3, 3], ["learn", 2, 4]]})
            # RSNorm over Dict observations (a dict of running statistics); agent ids given in unsorted order
            cases.append({"algo": "DQN", "family": "dict", "share": False, "netcfg": "partial", "seed": 61, "pop": 2, "wrapper": True,
                          "ops": [["learn", 0, 744], ["act", 0, 3], ["clone", 0, None], ["act", 0, 536], ["act", 2, 536, 0],
                                  ["learn", 0, 216], ["learn", 2, 216, 0], ["mutate", 2, "arch", 4], ["clone", 2, 7],
                                  ["learn", 1, 79], ["learn", 3, 2], ["learn", 0, 5]]})
            for algo in ("MADDPG", "IPPO"):       # non-uniform shapes: agents with different observation sizes
                cases.append({"algo": algo, "family": "vector", "share": False, "netcfg": "partial", "seed": 4, "pop": 2, "hetero": True,
                              "ops": [["learn", 0, 1], ["clone", 0, None], ["act", 0, 2], ["act", 2, 2, 0], ["learn", 0, 3],
                                      ["learn", 2, 3, 0], ["mutate", 2, "arch", 4], ["clone", 2, 7], ["learn", 1, 5], ["learn", 3, 6]]})
            cases.append({"algo": "IPPO", "family": "vector", "share": False, "netcfg": "partial", "seed": 3, "pop": 2, "ids": "rev",
                          "ops": [["learn", 0, 1], ["clone", 0, None], ["act", 0, 2], ["act", 2, 2, 0], ["learn", 0, 3],
                                  ["learn", 2, 3, 0], ["mutate", 2, "arch", 4], ["clone", 2, 7], ["learn", 1, 5], ["learn", 3, 6]]})
            # custom encoder (EvolvableResNet): architecture mutations of the encoder, then clones of the mutants
            cases.append({"algo": "DQN", "family": "image", "share": False, "netcfg": "resnet", "seed": 5, "pop": 2,
                          "ops": [["learn", 0, 1]] + [["mutate", 0, "arch", 100 + i] for i in range(6)] +
                                 [["clone", 0, None], ["act", 0, 2], ["act", 2, 2, 0], ["learn", 0, 5], ["learn", 2, 5, 0]] +
                                 [["mutate", 2, "arch", 120 + i] for i in range(4)] +
                                 [["clone", 2, 9], ["mutate", 1, "act", 2], ["learn", 1, 3], ["learn", 3, 4], ["learn", 0, 6]]})
        else:
            cases += custom_cases([(a, f) for a, fs in evo.CUSTOM_ALGOS.items() for f in fs])
            for algo in ("DQN", "CQN", "DDPG", "TD3", "RainbowDQN"):
                for fam in ("dict", "image"):
                    add(algo, fam, False, "partial", 6, rng.randrange(1000), nag=2, wrapper=True)
            for algo in sorted(evo.MULTI):
                c = {"algo": algo, "family": "vector", "share": False, "netcfg": "partial", "seed": 3, "pop": 2, "ids": "rev",
                     "ops": history(2, 8, rng)}
                cases.append(c)
                cases.append({"algo": algo, "family": "vector", "share": False, "netcfg": "partial", "seed": 4, "pop": 2, "hetero": True,
                              "ops": history(2, 8, rng, OU=algo in evo.OU_ALGOS)})
            for algo in ("DQN", "NeuralUCB", "CQN", "TD3"):
                cases.append({"algo": algo, "family": "vector", "share": False, "netcfg": "partial", "seed": 9, "pop": 2,
                              "ops": [["learn", 0, 1], ["poke", 0, 1], ["clone", 0, None], ["clone", 2, 8], ["poke", 1, 2],
                                      ["score", 0, 5], ["score", 1, 9], ["score", 2, 3], ["score", 3, 1], ["select", [1, 0], True],
                                      ["clone", 0, None], ["poke", 3, 3], ["learn", 2, 4]]})
            for algo in evo.RESNET_ALGOS:
                for share in ([False, True] if algo in evo.SHARE_CAPABLE else [False]):
                    cases.append({"algo": algo, "family": "image", "share": share, "netcfg": "resnet", "seed": 7, "pop": 2,
                                  "ops": [["learn", 0, 1]] + [["mutate", 0, "arch", 100 + i] for i in range(6)] +
                                         [["clone", 0, None], ["act", 0, 2], ["act", 2, 2, 0], ["learn", 0, 5], ["learn", 2, 5, 0]] +
                                         [["mutate", 2, "arch", 120 + i] for i in range(4)] +
                                         [["clone", 2, 9], ["mutate", 1, "act", 2], ["score", 0, 1], ["score", 1, 2], ["score", 2, 3],
                                          ["score", 3, 9], ["select", [0, 2], True], ["learn", 0, 3], ["learn", 1, 4], ["learn", 2, 6],
                                          ["learn", 3, 6]]})
            for algo in ("DQN", "RainbowDQN", "CQN", "DDPG", "TD3"):
                for rep in range(3):
                    add(algo, "vector", False, rng.choice(["partial", "none"]), rng.choice([6, 9]),   # RSNorm: Box observations
                        rng.randrange(1000), nag=2, wrapper=True)
            for algo in algos:
                for fam in evo.FAMILIES:
                    for share in ([False, True] if algo in evo.SHARE_CAPABLE else [False]):
                        for rep in range(2):
                            add(algo, fam, share, rng.choice(["partial", "full", "none"]), rng.choice([6, 9, 12]),
                                rng.randrange(1000), nag=rng.choice([2, 3]))
        return cases

    # ------------------------------------------------------------------ implementation
    def run_impl(self, case):
        import torch
        torch.set_num_threads(1)
        evo.reset_globals()
        spec = {k: case[k] for k in ("algo", "family", "share", "netcfg", "seed")}
        if case.get("ids"):
            spec["ids"] = case["ids"]
        if case.get("hetero"):
            spec["hetero"] = True
        # a population is built from ONE user net_config / hp_config, as EvolvableAlgorithm.population does
        shared_cfg = evo.net_config_for(case["netcfg"], case["family"])
        hp = evo.hp_config_for(case["algo"])
        pop = [evo.build_agent(dict(spec, index=i, _hp_obj=hp), shared_cfg=shared_cfg) for i in range(case["pop"])]
        if case.get("tags"):
            for i, a in enumerate(pop):
                evo.apply_tags(a, i)
        if case.get("wrapper"):      # AgentWrapper.clone: observation-normalising wrapper around each member
            from agilerl.wrappers.agent import RSNorm
            pop = [RSNorm(a) for a in pop]
        reg = evo.registry_plus(pop[0])
        states = [self._snap(pop)]
        recs = []
        for op in case["ops"]:
            rec = {"op": op[0]}
            k = op[0]
            try:
                pop = self._apply(op, rec, pop, spec)
            except Exception as e:      # an operation of the evolutionary loop that raises ends the history: the states
                import traceback        # reached so far are still judged, and the failure itself is reported by the oracle
                rec["error"] = f"{type(e).__name__}: {str(e)[:300]}"
                rec["trace"] = traceback.format_exc()[-1200:]
                recs.append(rec)
                break
            recs.append(rec)
            states.append(self._snap(pop))
        return {"reg": reg, "states": states, "recs": recs}

    def _apply(self, op, rec, pop, spec):
        k = op[0]
        if True:
            if k == "learn":
                i = op[1]
                pre_equal = None
                if len(op) > 3:      # second half of a (parent, clone) pair trained on the same batch with the same seed
                    rec["pair"] = [op[3], i]
                rec["loss"] = evo.learn(pop[i], spec, op[2])
            elif k == "score":
                evo.apply_score(pop[op[1]], op[2])
            elif k == "act":
                if len(op) > 3:
                    rec["pair"] = [op[3], op[1]]
                rec["action"] = evo.greedy(pop[op[1]], spec, op[2])
            elif k == "poke":         # extreme but legal magnitudes written into weights and ext tensors
                evo.poke(pop[op[1]], op[2])
            elif k == "explore":      # get_action in training mode: exploration noise state advances
                rec["action"] = evo.explore(pop[op[1]], spec, op[2])
            elif k == "reset_noise":  # reset_action_noise([0]): in-place write of the OU-noise state
                evo.reset_noise(pop[op[1]])
            elif k == "clone":
                p = pop[op[1]]
                c = p.clone() if op[2] is None else p.clone(index=op[2])
                pop.append(c)
            elif k == "mutate":
                pop[op[1]] = evo.apply_mutation(pop[op[1]], op[2], op[3])
                rec["label"] = evo.unwrap(pop[op[1]]).mut
            elif k == "select":
                handed = [id(x) for x in pop]
                newpop, best = evo.apply_select(pop, op[1], elitism=op[2])
                rec["args_modified"] = handed != [id(x) for x in pop]     # select() must not touch the list it was handed
                rec["elite"] = best
                old = pop
                pop = newpop
                rec["old_after"] = self._snap(old)      # the replaced generation must not have been altered
                del old
            elif k == "discard":
                del pop[op[1]]
                gc.collect()
            else:
                raise ValueError(k)
        return pop

    @staticmethod
    def _snap(pop):
        out = []
        for ag in evo.snapshot(pop):
            out.append({"slots": [[s[0], s[1], list(s[2]), s[3]] for s in ag["slots"]], "struct": ag["struct"]})
        for o, ag in zip(out, pop):
            o["extra"] = evo.extras(ag)
        return out

    # ------------------------------------------------------------------ model term
    def coq_term(self, case, obs):
        tab = evo.Tables()
        reg = obs["reg"]
        for st in obs["states"]:
            for ag in st:
                for s in ag["slots"]:
                    tab.val(s[3])
        nvals = len(tab.vals)
        try:
            regterm = evo.coq_registry(reg, tab, case["algo"])
        except ValueError:
            return "false"
        w0 = evo.coq_world(obs["states"][0], reg, tab, regterm, nvals)
        ops = []
        for op, rec, before, after in zip(case["ops"], obs["recs"], obs["states"], obs["states"][1:]):
            k = op[0]
            if k in ("learn", "poke"):     # poke: an opaque write of weights / ext tensors of one member
                st = after[op[1]]["struct"]["opts"]
                ops.append("Learn {}%nat [{}]".format(op[1], "; ".join(f"({tab.name(o)}, {d['nstate']}%nat)" for o, d in st.items())))
            elif k == "score":
                ops.append(f"Score {op[1]}%nat")
            elif k in ("act", "explore", "reset_noise"):    # all three may write the ext tensors / buffers of one member
                ops.append(f"Act {op[1]}%nat")
            elif k == "clone":
                ops.append(f"Clone {op[1]}%nat {'None' if op[2] is None else '(Some %d)' % op[2]}")
            elif k == "mutate":
                i, kind = op[1], op[2]
                label = rec["label"]
                a = after[i]["struct"]
                evals = [g["eval"] for g in reg["groups"]]
                shapes = "; ".join("mkShape {} {} {}%nat {}%nat {}%nat {}%nat {}%nat {}%nat".format(
                    tab.name(n), tab.arch(a["nets"][n]["arch"]), a["nets"][n]["enc"], a["nets"][n]["head"],
                    a["nets"][n]["henc"], a["nets"][n]["const"], a["nets"][n]["cfg"], a["nets"][n]["buf"]) for n in evals)
                if kind == "act":
                    # NB activation_mutation touches the networks and re-creates the optimizers even when it ends up
                    # with the label "None" (no activation to mutate); the skip for policy-gradient algorithms is in the model
                    mk = "MAct"
                elif kind == "arch":
                    # the fall-back "no mutation methods" sets the label to the string "None" and touches nothing; a
                    # sampled method that hits a bound still replaces the networks by their offspring (label may be None)
                    mk = "MNone" if label == "None" else "MArch"
                elif kind == "none" or label in (None, "None"):
                    mk = "MNone"
                elif kind == "param":
                    mk = "MParam"
                else:
                    mk = f"(MHp {tab.name(label)} {evo._q(a['hps'][label])})"
                ops.append(f"Mutate {i}%nat {mk} [{shapes}] {tab.label(label)}")
            elif k == "select":
                ops.append("Select {}%nat [{}] {}".format(rec["elite"], "; ".join(f"{d}%nat" for d in op[1]),
                                                          "true" if op[2] else "false"))
            elif k == "discard":
                ops.append(f"Discard {op[1]}%nat")
        obl = [evo.coq_obs(st, reg, tab) for st in obs["states"]]
        return f"check_run {w0} [{'; '.join(ops)}] [{'; '.join(obl)}]"

    # ------------------------------------------------------------------ oracle: the property on the implementation
    def oracle(self, case, obs):
        out = []
        algo = case["algo"]
        reg = obs["reg"]
        states, recs = obs["states"], obs["recs"]
        shared_of = {}
        for g in reg["groups"]:
            for s in g["shared"]:
                shared_of[s] = g["eval"]

        def sig(clause, cls):
            fam = "" if case.get("family", "vector") == "vector" else "@" + case["family"]
            return f"{clause}{fam}:{algo}{'+share' if case.get('share') else ''}:{cls}"

        def shared_ptrs(st, what):
            seen = {}
            for ai, ag in enumerate(st):
                for s in ag["slots"]:
                    p = tuple(s[2])
                    if p in seen and seen[p][0] != ai:
                        out.append(Violation("shared-state", sig("shared", s[1]),
                                             f"{what}: slot {s[0]} of agent #{ai} is the same object as slot {seen[p][1]} of agent #{seen[p][0]}"))
                        return
                    seen.setdefault(p, (ai, s[0]))

        def unchanged(b, a, who, what):
            nb = [(s[0], s[3]) for s in b["slots"]]
            na = [(s[0], s[3]) for s in a["slots"]]
            if nb != na or self._stable(b["struct"]) != self._stable(a["struct"]):
                diff = [x[0] for x, y in zip(nb, na) if x != y][:5]
                cls = next((s[1] for s, y in zip(b["slots"], na) if (s[0], s[3]) != y), "struct")
                out.append(Violation("frame", sig("frame", cls),
                                     f"{what} changed agent #{who} (index {b['struct']['index']}): slots {diff or 'structure'}"))
                return False
            return True

        shared_ptrs(states[0], "initial population")
        for t, (op, rec) in enumerate(zip(case["ops"], recs)):
            k = op[0]
            what = f"op {t} {op[:3]}"
            if rec.get("error"):
                # cloning / training / mutating / selecting a member that earlier operations left in working order raises
                out.append(Violation("raises", sig("raises", k), f"{what} raised {rec['error']}\n{rec.get('trace', '')[-600:]}"))
                break
            before, after = states[t], states[t + 1]
            if k in ("learn", "score", "mutate", "act", "explore", "reset_noise", "poke"):
                for j in range(len(before)):
                    if j != op[1] and not unchanged(before[j], after[j], j, what):
                        break
            elif k == "clone":
                for j in range(len(before)):
                    if not unchanged(before[j], after[j], j, what):
                        break
                self._faithful(out, sig, before[op[1]], after[-1], shared_of, what, op[2])
            elif k == "select":
                if rec.get("args_modified"):
                    out.append(Violation("args", sig("select-args", "population"), f"{what}: select() modified the population list it was handed"))
                for j in range(len(before)):
                    if not unchanged(before[j], rec["old_after"][j], j, what + " (old generation)"):
                        break
                elite = rec["elite"]
                # the returned elite and, with elitism, the first member are copies of the best agent
                self._faithful(out, sig, before[elite], after[-1], shared_of, what + " elite", None)
                if op[2]:
                    self._faithful(out, sig, before[elite], after[0], shared_of, what + " elite member", None)
                for kk, d in enumerate(op[1]):
                    self._faithful(out, sig, before[d], after[kk + (1 if op[2] else 0)], shared_of, what + f" winner {kk}", "any")
            elif k == "discard":
                rest = [x for j, x in enumerate(before) if j != op[1]]
                for j in range(len(rest)):
                    if not unchanged(rest[j], after[j], j, what):
                        break
            shared_ptrs(after, what)
            gseen = {}
            for ai, ag in enumerate(after):      # gradient buffers are mutable state too: none may be shared between members
                for gp in ag.get("extra", {}).get("grads", []):
                    if gp in gseen and gseen[gp] != ai:
                        out.append(Violation("shared-state", sig("shared", "grad"),
                                             f"{what}: a parameter of agent #{ai} and a parameter of agent #{gseen[gp]} hold the same .grad tensor"))
                        break
                    gseen.setdefault(gp, ai)
            if len(out) > 8:
                break
            if k == "act" and rec.get("pair"):
                p, c = rec["pair"]
                if self._policy_equal(states[t - 1][p], states[t - 1][c], reg) and recs[t - 1].get("action") != rec.get("action"):
                    out.append(Violation("behaviour", sig("greedy", "action"),
                                         f"{what}: parent #{p} and its clone #{c} (equal policy weights) choose different greedy actions "
                                         f"{recs[t - 1].get('action')} vs {rec.get('action')}"))
            # (parent, clone) trained on the same batch under the same seed compute the same update
            if k == "learn" and rec.get("pair"):
                p, c = rec["pair"]
                pre_p, pre_c = states[t - 1][p], states[t - 1][c]       # before the parent's learn
                if [s[3] for s in pre_p["slots"]] == [s[3] for s in pre_c["slots"]]:
                    ap, ac = after[p], after[c]
                    diff = [(x[0], x[1]) for x, y in zip(ap["slots"], ac["slots"]) if x[3] != y[3]]
                    sp_, sc_ = ap["struct"].get("scalars", {}), ac["struct"].get("scalars", {})
                    diff += [("attr." + k, "scalar") for k in sorted(set(sp_) | set(sc_)) if sp_.get(k) != sc_.get(k)]
                    lp, lc = json.dumps(recs[t - 1].get("loss")), json.dumps(rec.get("loss"))     # (NaN-safe comparison)
                    if diff or lp != lc:
                        out.append(Violation("behaviour", sig("update", diff[0][1] if diff else "loss"),
                                             f"{what}: parent #{p} and its value-identical clone #{c} computed different updates from the same batch: "
                                             f"losses {lp} vs {lc}; differing slots {[d[0] for d in diff[:6]]}"))
        return out

    @staticmethod
    def _stable(st):
        d = {k: v for k, v in st.items() if k not in ("nets", "opts")}
        d["nets"] = {n: {k: v for k, v in x.items() if k != "param_ids"} for n, x in st["nets"].items()}
        d["opts"] = {n: {k: v for k, v in x.items() if k != "ref_ptrs"} for n, x in st["opts"].items()}
        return json.dumps(d, sort_keys=True, default=str)

    @staticmethod
    def _policy_equal(p, c, reg):
        pol = reg.get("policy")
        a = [(s[0], s[3]) for s in p["slots"] if s[0].split(".")[0].split("[")[0] == pol or s[1] == "ext"]
        b = [(s[0], s[3]) for s in c["slots"] if s[0].split(".")[0].split("[")[0] == pol or s[1] == "ext"]
        return a == b

    def _faithful(self, out, sig, p, c, shared_of, what, idx):
        """clone c of parent p: same hp, architectures, weights, optimizer settings and state, bookkeeping; a target
        network may differ only if it was re-synchronised with its own online network"""
        if len(out) > 3:
            return
        ps, cs = p["struct"], c["struct"]
        if [s[0] for s in p["slots"]] != [s[0] for s in c["slots"]]:
            a, b = [s[0] for s in p["slots"]], [s[0] for s in c["slots"]]
            d = [x for x in a if x not in b][:3] + [x for x in b if x not in a][:3]
            out.append(Violation("faithful", sig("faithful", "slots"), f"{what}: clone has different slots than its parent: {d}"))
            return
        cval = {s[0]: s[3] for s in c["slots"]}
        for s, t in zip(p["slots"], c["slots"]):
            if s[3] != t[3]:
                owner = s[0].split(".")[0].split("[")[0]
                ev = shared_of.get(owner)
                if ev is not None and cval.get(ev + s[0][len(owner):]) == t[3]:
                    continue   # re-synchronised target: allowed by the property
                out.append(Violation("faithful", sig("faithful", s[1]),
                                     f"{what}: slot {s[0]} of the clone (index {cs['index']}) differs in value from its parent (index {ps['index']})"))
                return
        for n in ps["nets"]:
            if ps["nets"][n]["arch"] != cs["nets"][n]["arch"]:
                out.append(Violation("faithful", sig("faithful", "arch"), f"{what}: architecture of {n} differs: {ps['nets'][n]['arch']} vs {cs['nets'][n]['arch']}"))
                return
        pe, ce = p.get("extra", {}), c.get("extra", {})
        if pe.get("tree") != ce.get("tree"):
            d = [n for n in pe.get("tree", {}) if pe["tree"][n] != ce.get("tree", {}).get(n)]
            out.append(Violation("faithful", sig("faithful", "modules"), f"{what}: the module trees (sub-module names / classes) of {d} differ between parent and clone"))
        if pe.get("types") != ce.get("types"):
            d = {k: (v, ce.get("types", {}).get(k)) for k, v in pe.get("types", {}).items() if ce.get("types", {}).get(k) != v}
            out.append(Violation("faithful", sig("faithful", "type"), f"{what}: attribute types differ (parent, clone): {d}"))
        if ps.get("scalars") != cs.get("scalars"):
            d = {k: (v, cs["scalars"].get(k)) for k, v in ps["scalars"].items() if cs["scalars"].get(k) != v}
            out.append(Violation("faithful", sig("faithful", "scalar"), f"{what}: scalar attributes differ (parent, clone): {d}"))
        if ps["hps"] != cs["hps"]:
            out.append(Violation("faithful", sig("faithful", "hp"), f"{what}: hyper-parameters differ {ps['hps']} vs {cs['hps']}"))
        for o in ps["opts"]:
            a, b = ps["opts"][o], cs["opts"][o]
            if a["lrs"] != b["lrs"] or a["nstate"] != b["nstate"] or a["wrapper_lr"] != b["wrapper_lr"]:
                out.append(Violation("faithful", sig("faithful", "opt"), f"{what}: optimizer {o} settings differ {a} vs {b}"))
            if not b["refs_ok"]:
                out.append(Violation("faithful", sig("faithful", "optrefs"), f"{what}: optimizer {o} of the clone does not hold the clone's parameters"))
        if ps["books"] != cs["books"] or ps["mut"] != cs["mut"]:
            out.append(Violation("faithful", sig("faithful", "book"), f"{what}: bookkeeping differs {ps['books']}/{ps['mut']} vs {cs['books']}/{cs['mut']}"))
        want = ps["index"] if idx is None else (cs["index"] if idx == "any" else idx)
        if cs["index"] != want:
            out.append(Violation("faithful", sig("faithful", "index"), f"{what}: clone index {cs['index']} expected {want}"))

    # ------------------------------------------------------------------ evidence helpers
    def extra_static(self):
        """fail closed if the slot extraction does not cover what the algorithms expose: every evolvable network /
        optimizer attribute must be named by the registry (the slots are enumerated from the registry)"""
        out = []
        self.notes = []
        for algo in evo.ALGOS:
            for share in ([False, True] if algo in evo.SHARE_CAPABLE else [False]):
                a = evo.build_agent({"algo": algo, "family": "vector", "share": share, "netcfg": "partial", "seed": 0, "index": 0})
                r = evo.registry_plus(a)
                self.notes.append("registry {}{}: groups={} optimizers={} hooks={} share_others={} hps={}".format(
                    algo, "+share" if share else "", [(g["eval"], g["shared"], g["policy"]) for g in r["groups"]],
                    [(o["name"], o["nets"], o["lr"]) for o in r["opts"]], r["hooks"], r["share_others"], r["hps"]))
                nets = set(a.evolvable_attributes(networks_only=True))
                alle = set(a.evolvable_attributes())
                reg_nets = set(evo.net_names(a))
                reg_opts = {o.name for o in a.registry.optimizers}
                if nets != reg_nets or (alle - nets) != reg_opts:
                    out.append(Violation("coverage", f"coverage:{algo}", f"{algo}: evolvable attributes {sorted(alle)} are not exactly the "
                                         f"registry's networks {sorted(reg_nets)} + optimizers {sorted(reg_opts)}; slots would be missed",
                                         None, None, found_input=False))
                for h in a.registry.hooks:
                    if h not in ("init_hook", "share_encoder_parameters", "init_params"):
                        out.append(Violation("coverage", f"coverage:hook:{algo}", f"{algo}: mutation hook {h!r} has no model", None, None, found_input=False))
        return out

    def key(self, case):
        return json.dumps([case["algo"], case["family"], case["share"], case["netcfg"], bool(case.get("wrapper")), bool(case.get("tags")), case.get("ids"), bool(case.get("hetero")), [o[0] if o[0] != "mutate" else o[0] + ":" + o[2] for o in case["ops"]]])

    def nontrivial(self, case, obs):
        ops = case["ops"]
        first_learn = next((i for i, o in enumerate(ops) if o[0] == "learn"), None)
        if first_learn is None:
            return False
        for i, o in enumerate(ops):
            if o[0] in ("clone", "mutate", "select") and i > first_learn:
                later = [p for p in ops[i + 1:] if p[0] == "learn"]
                if len({p[1] for p in later}) >= 2:
                    return True
        return False

    def classify(self, case, obs):
        labs = [f"algo={case['algo']}", f"family={case['family']}", f"wrapper={bool(case.get('wrapper'))}", f"share={case['share']}", f"netcfg={case['netcfg']}",
                f"len={min(len(case['ops']) // 4 * 4, 16)}+"]
        for o in case["ops"]:
            labs.append("op=" + (o[0] if o[0] != "mutate" else "mutate:" + o[2]))
        for r in obs["recs"]:
            if r["op"] == "mutate":
                labs.append("label=" + str(r["label"]))
            if r.get("pair"):
                labs.append("pair-trained")
        return labs

    def neighbours(self, case, rng):
        for cut in range(len(case["ops"]) - 1, 0, -1):
            c = dict(case)
            c["ops"] = case["ops"][:cut]
            if self._valid(c):
                yield c

    @staticmethod
    def _valid(case):
        n = case["pop"]
        for o in case["ops"]:
            if o[0] in ("learn", "score", "mutate", "clone", "discard", "act", "explore", "reset_noise", "poke") and o[1] >= n:
                return False
            if o[0] in ("learn", "act") and len(o) > 3 and o[3] >= n:
                return False
            if o[0] == "clone":
                n += 1
            elif o[0] == "discard":
                n -= 1
            elif o[0] == "select":
                if any(d >= n for d in o[1]):
                    return False
                n = len(o[1]) + (1 if o[2] else 0) + 1
        return True


if __name__ == "__main__":
    sys.exit(vlib.run_check(C01()))
