"""C04 — mutations reuse learned weights; an unchanged architecture computes the same.

Two kinds of cases:
  unit : the real EvolvableModule.preserve_parameters / EvolvableCNN.shrink_preserve_parameters on two
         real torch layer stacks (Linear, LayerNorm, Conv2d, Conv3d, LSTM, NoisyLinear, BatchNorm) with
         distinct integer weights; all (old size, new size) pairs of a small grid for rank <= 2, sampled
         for rank 4-5, layers present on one side only.  K: model's preserve / shrink_preserve == result.
  e2e  : a real evolvable block / network, weights randomised to integers, then a chain of operations
         (every advertised mutation method with chosen arguments, clone, reinit_from_mutated,
         recreate_network, re-randomise, training-mode forward).  K: the parameters after each step are
         a fixed point of the model's `preserve before` (check_chain); unchanged architecture => the
         model predicts the old parameters exactly; clone => no load error, equal parameters.
The oracle states the property directly on tensors and outputs, independently of the Coq model.
"""
from __future__ import annotations

import itertools
import json
import sys
import traceback
from collections import OrderedDict

import numpy as np
import torch
import torch.nn as nn

import vlib
from vlib import Violation, coq_string

import c04_blocks as B
from agilerl.hpo.mutation import Mutations
from agilerl.modules.base import EvolvableModule
from agilerl.modules.cnn import EvolvableCNN
from agilerl.modules.custom_components import NoisyLinear

OFFSET = 10 ** 10
CARRY_FRAMES = ("preserve_parameters", "shrink_preserve_parameters", "load_state_dict", "copy_")
torch.set_num_threads(1)      # tiny tensors: threading only costs (and the machine is shared)


# ------------------------------------------------------------------ snapshots / exact encoding
def codes(t: torch.Tensor):
    """injective integer code of every float32 entry: the integer itself when integer valued, else 10^10 + bit pattern"""
    a = np.ascontiguousarray(t.detach().cpu().float().numpy()).ravel()
    isint = (a == np.round(a)) & (np.abs(a) < 2 ** 24) & ~((a == 0) & np.signbit(a))      # -0.0 keeps its own code
    bits = a.view(np.uint32).astype(np.int64) + OFFSET
    return [int(v) if i else int(b) for v, i, b in zip(a, isint, bits)]


MAX_BUFFER = 512      # constant tables (BERT positional encoding, 20000 entries) stay out of the exchange


def snap(module):
    """everything preserve_parameters carries over (since aa86ee5): parameters AND buffers (running statistics,
    noise buffers, num_batches_tracked). remove_duplicate=False: tied weights (GPT wte / lm_head) are listed under
    each of their names, so the signature does not depend on whether a re-creation keeps the tie."""
    out = [[k, list(p.shape), codes(p.data)] for k, p in module.named_parameters(remove_duplicate=False)]
    out += [[k, list(b.shape), codes(b.data.float())] for k, b in module.named_buffers() if b.numel() <= MAX_BUFFER]
    return out


def snap_state(module):
    return [[k, list(v.shape), codes(v.data.float())] for k, v in module.state_dict().items()]


def snap_buffers(module):
    return [[k, list(b.shape), codes(b.data.float())] for k, b in module.named_buffers()]


def arr(entry):
    return np.asarray(entry[2], dtype=np.int64).reshape(entry[1]) if entry[1] else np.asarray(entry[2], dtype=np.int64).reshape(())


def fill_distinct(module, start, step):
    v = start
    with torch.no_grad():
        for p in list(module.parameters()) + list(module.buffers()):
            n = p.numel()
            p.copy_(torch.arange(v, v + step * n, step, dtype=torch.float32)[:n].reshape(p.shape).to(p.dtype))
            v += step * n
    return v


def randomise(module, seed, lo=-99, hi=99):
    g = torch.Generator().manual_seed(seed)
    with torch.no_grad():
        for p in module.parameters():
            p.copy_(torch.randint(lo, hi + 1, p.shape, generator=g).float())


def outputs(m, x):
    """outputs on two input batches in evaluation mode and on one in training mode (noise, dropout, batch statistics
    active; sampling seeded, buffers restored), flattened. Leaves the module in evaluation mode."""
    ys = [B.forward(m, x), B.forward(m, B._scale(x, 0.37)), B.forward(m, x, mode="train")]
    return torch.cat([y.reshape(-1) for y in ys])


def ties(m):
    """parameter-tying partition: groups of parameter names that share storage (GPT wte / lm_head)"""
    groups = {}
    for k, p_ in m.named_parameters(remove_duplicate=False):
        if p_.numel():
            groups.setdefault((p_.data_ptr(), tuple(p_.shape)), []).append(k)
    return sorted(sorted(v) for v in groups.values() if len(v) > 1)


def structure(m):
    """module-class structure: the layer / activation classes in registration order"""
    return [type(x).__name__ for x in nn.Module.modules(m)]


def sgd_like_step(m, seed):
    """in-place update of every parameter through named_parameters, as an optimizer step does (p.data.add_)"""
    g = torch.Generator().manual_seed(seed)
    with torch.no_grad():
        for _, p_ in m.named_parameters():
            p_.data.add_(torch.randint(-9, 10, p_.shape, generator=g).float())


def all_eval(m):
    return not any(sub.training for sub in nn.Module.modules(m))


EXTREME = [3.0e38, -3.0e38, 1.0e30, -1.0e30, 1.0e-40, -1.0e-40, 1.17549435e-38, -0.0, 0.0, 16777217.0, 0.1, -1e-7]


def randomise_extreme(module, seed):
    """extreme but legal float32 magnitudes (near overflow, denormal, signed zero): a copy must be bit-exact"""
    g = torch.Generator().manual_seed(seed)
    table = torch.tensor(EXTREME, dtype=torch.float32)
    with torch.no_grad():
        for p_ in module.parameters():
            p_.copy_(table[torch.randint(0, len(EXTREME), p_.shape, generator=g)])


def storage_ptrs(m):
    return {t.data_ptr() for t in list(m.parameters()) + list(m.buffers()) if t.numel()}


def canon(d):
    return json.dumps(d, sort_keys=True, default=str)


def category(name):
    """parameter name without layer indices, e.g. model.mlp_layer_norm_1.weight -> layer_norm.weight"""
    parts = name.split(".")
    last = parts[-2] if len(parts) > 1 else ""
    last = "".join(c for c in last if not c.isdigit()).strip("_")
    for pref in ("mlp_", "cnn_", "encoder_", "value_", "actor_", "lstm_", "simba_", "resnet_"):
        if last.startswith(pref):
            last = last[len(pref):]
    return f"{last}.{parts[-1]}"


# ------------------------------------------------------------------ unit level: layer stacks
def make_layer(d):
    k = d[0]
    if k == "linear":
        return nn.Linear(d[1], d[2])
    if k == "layernorm":
        return nn.LayerNorm(d[1])
    if k == "batchnorm":
        return nn.BatchNorm2d(d[1])
    if k == "conv2d":
        return nn.Conv2d(d[1], d[2], (d[3], d[4]))
    if k == "conv3d":
        return nn.Conv3d(d[1], d[2], (d[3], d[4], d[5]))
    if k == "lstm":
        return nn.LSTM(d[1], d[2], num_layers=d[3], batch_first=True)
    if k == "noisy":
        return NoisyLinear(d[1], d[2])
    raise ValueError(k)


def build_stack(stack):
    return nn.Sequential(OrderedDict((name, make_layer(d)) for name, d in stack))


def cq_named(entries):
    out = []
    for name, size, flat in entries:
        n = 1
        for s in size:
            n *= s
        assert len(flat) == n, (name, size, len(flat))
        zs = "; ".join(str(v) if v >= 0 else f"({v})" for v in flat)
        out.append(f"mk {coq_string(name)} [{'; '.join(map(str, size))}] [{zs}]")
    return "[" + "; ".join(out) + "]"


class C04(vlib.Driver):
    pid = "C04"
    preamble = ("From Coq Require Import String ZArith.\nFrom AgileV Require Import C04.Model C04.Check.\nImport List ListNotations.\n"
                "Open Scope Z_scope.")
    rule = ("unit: (function, old layer stack, new layer stack); non-trivial iff some same-named parameter changes size or a "
            "layer exists on one side only. e2e: (block, operation chain with arguments); non-trivial iff at least one step "
            "changed the architecture (parameter signature) or the guard outcome of a method differs from its previous call.")
    trusted_base = ["hand-written model coq/theories/C04/Model.v (preserve_parameters, shrink_preserve_parameters, load_state_dict as used by clone/reinit_from_mutated)",
                    "correspondence harness harness/c04.py + c04_blocks.py (injective integer encoding of float32 weights, flat row-major exchange format decoded by Check.of_flat)"]
    assumptions = ["torch slice assignment param.data[slices] = old.data[slices], Module.named_parameters order and load_state_dict semantics (validated by K only)",
                   "same-named parameters have the same rank (guard; torch would raise or broadcast otherwise)",
                   "shrink_preserve_parameters is only used when sizes beyond the second axis agree (guard of shrink_total; true for remove_layer / remove_channel / remove_block)",
                   "forward pass is a function of the named parameters and buffers and of the module's train/eval flag (oracle compares evaluation-mode outputs)"]
    shard = 40

    # ---------------------------------------------------------------- generation
    def generate(self, tier, rng):
        cases = []
        G = 3 if tier == "quick" else 5
        self.exhaustive = True
        # rank <= 2, exhaustive: Linear(in,out) followed by LayerNorm(out) (key contains "norm"), both functions
        for mode in ("preserve", "shrink"):
            for (i0, o0, i1, o1) in itertools.product(range(1, G + 1), repeat=4):
                cases.append({"kind": "unit", "mode": mode,
                              "old": [["mlp_linear_layer_1", ["linear", i0, o0]], ["mlp_layer_norm_1", ["layernorm", o0]]],
                              "new": [["mlp_linear_layer_1", ["linear", i1, o1]], ["mlp_layer_norm_1", ["layernorm", o1]]]})
        # rank 4 / 5 sampled
        n45 = 60 if tier == "quick" else 600
        for i in range(n45):
            mode = rng.choice(["preserve", "shrink"])
            three = rng.random() < 0.4
            c = [rng.randint(1, 4) for _ in range(4)]
            k_old = [rng.randint(1, 3) for _ in range(3)]
            k_new = list(k_old) if (mode == "shrink" or rng.random() < 0.3) else [rng.randint(1, 3) for _ in range(3)]
            if three:
                old = [["cnn_conv_layer_1", ["conv3d", c[0], c[1]] + k_old], ["cnn_layer_norm_1", ["batchnorm", c[1]]]]
                new = [["cnn_conv_layer_1", ["conv3d", c[2], c[3]] + k_new], ["cnn_layer_norm_1", ["batchnorm", c[3]]]]
            else:
                old = [["cnn_conv_layer_1", ["conv2d", c[0], c[1]] + k_old[:2]], ["cnn_layer_norm_1", ["batchnorm", c[1]]]]
                new = [["cnn_conv_layer_1", ["conv2d", c[2], c[3]] + k_new[:2]], ["cnn_layer_norm_1", ["batchnorm", c[3]]]]
            cases.append({"kind": "unit", "mode": mode, "old": old, "new": new})
        # stacks with layers added / removed / of other kinds (LSTM, NoisyLinear)
        nst = 60 if tier == "quick" else 500
        for i in range(nst):
            mode = rng.choice(["preserve", "preserve", "shrink"])
            def rnd_layer(j):
                r = rng.random()
                if r < 0.35:
                    return [f"mlp_linear_layer_{j}", ["linear", rng.randint(1, 4), rng.randint(1, 4)]]
                if r < 0.55:
                    return [f"mlp_layer_norm_{j}", ["layernorm", rng.randint(1, 5)]]
                if r < 0.75:
                    return [f"lstm_{j}", ["lstm", rng.randint(1, 3), rng.randint(1, 3), rng.randint(1, 2)]]
                return [f"noisy_linear_layer_{j}", ["noisy", rng.randint(1, 4), rng.randint(1, 4)]]
            L = rng.randint(1, 3)
            old = [rnd_layer(j) for j in range(L)]
            new = []
            for j, (nm, d) in enumerate(old):
                r = rng.random()
                if r < 0.15:
                    continue                                   # layer removed
                if r < 0.35:
                    new.append([nm, list(d)])                  # unchanged
                else:
                    d2 = [d[0]] + [max(1, x + rng.randint(-2, 2)) for x in d[1:]]
                    if d[0] == "lstm":
                        d2[3] = rng.randint(1, 2)
                    new.append([nm, d2])
            while rng.random() < 0.4 or not new:
                new.append(rnd_layer(len(new) + 10))           # layer added
            cases.append({"kind": "unit", "mode": mode, "old": old, "new": new})
            if i % 2 == 0:
                cases.append({"kind": "unit", "mode": "load", "old": old, "new": new})
                cases.append({"kind": "unit", "mode": "load", "old": new, "new": [list(l) for l in new]})
        for (i0, o0, i1, o1) in itertools.product(range(1, 3), repeat=4):
            cases.append({"kind": "unit", "mode": "load",
                          "old": [["mlp_linear_layer_1", ["linear", i0, o0]], ["cnn_layer_norm_1", ["batchnorm", o0]]],
                          "new": [["mlp_linear_layer_1", ["linear", i1, o1]], ["cnn_layer_norm_1", ["batchnorm", o1]]]})

        # ---- end to end
        blocks = list(B.BLOCKS)
        nseed = 0
        for blk in blocks:
            m, _x = B.build(blk)
            methods = sorted(m.mutation_methods)
            argn = {meth: B.method_params(m, meth) for meth in methods}
            del m

            def args_for(meth, guard=None, effective=False):
                kw = {}
                for a in argn[meth]:
                    ch = B.ARG_CHOICES[a]
                    if meth.split(".")[-1] == "change_kernel":
                        ch = [None]
                    v = rng.choice(ch)
                    if effective:                      # small change that passes the HARD LIMIT guards of the tiny blocks
                        v = rng.choice([1, 1, 2]) if a.startswith("numb_new") else (rng.choice([None, 0]) if a == "hidden_layer" else v)
                    if guard and a.startswith("numb_new"):
                        v = 100
                    if v is not None:
                        kw[a] = v
                return kw

            # every advertised method once from the initial architecture, once forced onto its guard,
            # each followed by clone + reinit; then seeded chains
            def bad_args(meth):
                kinds = [{"c04_no_such_argument": 1}]
                if "hidden_layer" in argn[meth]:
                    kinds += [{"hidden_layer": -9}, {"hidden_layer": "0"}]
                for a in argn[meth]:
                    if a.startswith("numb_new"):
                        kinds += [{a: "x"}, {a: None, "c04_no_such_argument": 0}]
                return rng.choice(kinds[1:]) if len(kinds) > 1 and rng.random() < 0.65 else kinds[0]
            if blk in B.LIGHT_BLOCKS:
                meth = rng.choice(methods)
                second = rng.choice(methods)
                cases.append({"kind": "e2e", "block": blk, "seed": nseed,
                              "ops": [["clone"], ["train"], ["mut", meth, args_for(meth, effective=True)], ["clone"],
                                      ["mut", second, args_for(second, guard=True)], ["recreate"], ["clone"], ["reinit"]]}); nseed += 1
                for meth in rng.sample(methods, 2):
                    cases.append({"kind": "e2e", "block": blk, "seed": nseed, "ops": [["train"], ["mut", meth, args_for(meth, guard=True)], ["clone"]]}); nseed += 1
                b1, g1, s1 = (rng.choice(methods) for _ in range(3))
                cases.append({"kind": "e2e", "block": blk, "seed": nseed,
                              "ops": [["extreme"], ["bad", b1, bad_args(b1)], ["mut", g1, args_for(g1, effective=True)], ["mut", g1, args_for(g1, effective=True)], ["step"], ["clone"],
                                      ["sibling", s1, args_for(s1, effective=True)], ["clone"]]}); nseed += 1
                continue
            for meth in methods:
                # clone -> (train) -> mutate -> clone -> mutate again -> clone -> reinit: clones and re-created encoders are
                # built from init_dict, so every generation of the chain must report its LIVE architecture
                latent = [x for x in methods if x.endswith("latent_node")]
                second = rng.choice(latent) if latent and rng.random() < 0.6 else rng.choice(methods)
                cases.append({"kind": "e2e", "block": blk, "seed": nseed,
                              "ops": [["clone"], ["train"], ["mut", meth, args_for(meth, effective=True)], ["clone"],
                                      ["mut", second, args_for(second, effective=True)], ["clone"], ["reinit"]]}); nseed += 1
                if tier == "quick" and len(methods) > 6 and methods.index(meth) % 2 == 0:
                    continue                               # large method sets: the short chain for every other method only
                cases.append({"kind": "e2e", "block": blk, "seed": nseed, "ops": [["train"], ["mut", meth, args_for(meth)], ["clone"], ["reinit"]]}); nseed += 1
                if any(a.startswith("numb_new") for a in argn[meth]) and (tier != "quick" or rng.random() < 0.5):
                    cases.append({"kind": "e2e", "block": blk, "seed": nseed, "ops": [["train"], ["mut", meth, args_for(meth, guard=True)]]}); nseed += 1
            cases.append({"kind": "e2e", "block": blk, "seed": nseed, "ops": [["train"], ["recreate"], ["clone"], ["rand"], ["reinit"]]}); nseed += 1
            # a raising mutation call that the caller catches, then ordinary mutations and clones of the same object
            b1, b2, g1, g2 = (rng.choice(methods) for _ in range(4))
            cases.append({"kind": "e2e", "block": blk, "seed": nseed,
                          "ops": [["train"], ["bad", b1, bad_args(b1)], ["mut", g1, args_for(g1, effective=True)], ["clone"],
                                  ["bad", b2, bad_args(b2)], ["mut", g2, args_for(g2, effective=True)], ["clone"], ["reinit"]]}); nseed += 1
            # mutation -> in-place update of all parameters (what an optimizer step does) -> clone: tied / aliased tensors
            u1, u2 = rng.choice(methods), rng.choice(methods)
            cases.append({"kind": "e2e", "block": blk, "seed": nseed,
                          "ops": [["mut", u1, args_for(u1, effective=True)], ["step"], ["clone"], ["mut", u2, args_for(u2, guard=True)], ["rand"], ["clone"],
                                  ["step"], ["reinit"]]}); nseed += 1
            # identical calls in a row (same method, same arguments; clone of a clone) and extreme but legal weight magnitudes
            r1 = rng.choice(methods); ra = args_for(r1, effective=True)
            cases.append({"kind": "e2e", "block": blk, "seed": nseed,
                          "ops": [["extreme"], ["mut", r1, ra], ["mut", r1, dict(ra)], ["clone"], ["clone"], ["mut", r1, dict(ra)], ["extreme"], ["clone"], ["reinit"], ["reinit"]]}); nseed += 1
            # siblings: clone the parent, mutate the clone (every method), clone the parent again
            sib = [["sibling", meth, args_for(meth, effective=True)] for meth in methods]
            cases.append({"kind": "e2e", "block": blk, "seed": nseed, "ops": [["train"]] + sib + [["clone"], ["reinit"]]}); nseed += 1
            cases.append({"kind": "e2e", "block": blk, "seed": nseed,
                          "ops": [["clone"]] + [x for meth in rng.sample(methods, min(3, len(methods))) for x in (["sibling", meth, args_for(meth, effective=True)], ["clone"])]}); nseed += 1
            m0 = rng.choice(methods)
            cases.append({"kind": "e2e", "block": blk, "seed": nseed,
                          "ops": [["train"], ["act", rng.choice(["Tanh", "ELU", "GELU", "PReLU"])], ["clone"], ["mut", m0, args_for(m0, effective=True)],
                                  ["act", "ReLU"], ["clone"]]}); nseed += 1
            nchains = 1 if tier == "quick" else 12
            for c in range(nchains):
                L = rng.randint(3, 6) if tier == "quick" else rng.randint(4, 10)
                ops = []
                for _ in range(L):
                    r = rng.random()
                    if r < 0.55:
                        meth = rng.choice(methods)
                        ops.append(["mut", meth, args_for(meth, effective=rng.random() < 0.5)])
                    elif r < 0.6:
                        ops.append(["act", rng.choice(["Tanh", "ELU", "GELU", "ReLU", "Sigmoid"])])
                    elif r < 0.8:
                        ops.append(["clone"])
                    elif r < 0.88:
                        ops.append(["rand"])
                    elif r < 0.94:
                        ops.append(["train"])
                    else:
                        ops.append(["reinit"])
                cases.append({"kind": "e2e", "block": blk, "seed": nseed, "ops": ops}); nseed += 1
        # ---- whole agents through Mutations.mutation
        nag = 4 if tier == "quick" else 25
        for algo in B.AGENTS:
            for i in range(nag):
                cases.append({"kind": "agent", "algo": algo, "seed": 100 * len(cases) % 9973 + i, "rounds": 1 + i % 3})
        return cases

    # ---------------------------------------------------------------- implementation
    def run_impl(self, case):
        if case["kind"] == "agent":
            return self.run_agent(case)
        return self.run_unit(case) if case["kind"] == "unit" else self.run_e2e(case)

    def run_unit(self, case):
        torch.manual_seed(0)
        old, new = build_stack(case["old"]), build_stack(case["new"])
        fill_distinct(old, 1, 1)
        fill_distinct(new, -1, -1)
        s_old, s_new = snap(old), snap(new)
        if case["mode"] == "load":
            # what EvolvableModule.clone / Mutations.reinit_from_mutated do with the freshly built module
            for i, b in enumerate(old.buffers()):
                b.data = torch.full_like(b.data, 1000 + i)
            for i, b in enumerate(new.buffers()):
                b.data = torch.full_like(b.data, -1000 - i)
            s_old, s_new = snap_state(old), snap_state(new)
            err = None
            try:
                new.load_state_dict(old.state_dict())
            except RuntimeError as e:
                err = f"RuntimeError: {str(e)[:160]}"
            return {"old": s_old, "new": s_new, "res": snap_state(new), "err": err, "old_after": snap_state(old)}
        fn = EvolvableModule.preserve_parameters if case["mode"] == "preserve" else EvolvableCNN.shrink_preserve_parameters
        err, s_res = None, None
        try:
            res = fn(old_net=old, new_net=new)
            s_res = snap(res)
        except (RuntimeError, IndexError) as e:
            err = f"{type(e).__name__}: {str(e)[:200]}"
        return {"old": s_old, "new": s_new, "res": s_res, "err": err, "old_after": snap(old)}

    def run_e2e(self, case):
        blk = case["block"]
        torch.manual_seed(case["seed"])
        np.random.seed(case["seed"])
        m, x = B.build(blk)
        randomise(m, 1000 + case["seed"])
        obs = {"init": snap(m), "steps": []}
        mut = None
        extreme_now = False
        for oi, op in enumerate(case["ops"]):
            np.random.seed(case["seed"] * 131 + oi)
            torch.manual_seed(case["seed"] * 131 + oi)
            arch_b = canon(m.init_dict)
            if extreme_now:
                # weights near overflow give inf/nan activations (sampling heads even refuse them): only the
                # bit-exact parameter comparison is meaningful until the weights are re-randomised
                y_b = torch.zeros(1)
            else:
                y_b = outputs(m, x)
            p_b, b_b = snap(m), snap_buffers(m)
            ties_b, struct_b = ties(m), structure(m)
            rec = {"op": op[0]}
            if op[0] == "mut":
                try:
                    ret = getattr(m, op[1])(**op[2])
                except Exception as e:
                    # a mutation method that fails to produce a valid architecture is property C03's business;
                    # a failure while carrying the weights over is ours
                    frames = [f.name for f in traceback.extract_tb(e.__traceback__)]
                    rec["raised"] = f"{type(e).__name__}: {str(e)[:200]}"
                    rec["raised_in"] = [f for f in frames if f in CARRY_FRAMES]
                    obs["steps"].append(rec)
                    break
                rec["ret"] = str(ret)
                rec["applied"] = str(m.last_mutation_attr)
            elif op[0] == "bad":
                # a mutation call with an invalid argument that the caller catches: the object must stay usable
                try:
                    getattr(m, op[1])(**op[2])
                    rec["caught"] = None
                except Exception as e:
                    rec["caught"] = f"{type(e).__name__}: {str(e)[:120]}"
            elif op[0] == "sibling":
                # clone the object, mutate the CLONE, throw it away: the parent must not notice
                try:
                    sib = m.clone()
                    getattr(sib, op[1])(**op[2])
                    sgd_like_step(sib, 6500 + case["seed"] * 131 + oi)       # "train" the sibling in place
                    rec["sibling"] = str(sib.last_mutation_attr)
                    del sib
                except Exception as e:
                    rec["sibling"] = f"raised {type(e).__name__}: {str(e)[:120]}"
            elif op[0] == "act":
                # change_activation (Mutations.activation_mutate): re-creates the network, weights must survive
                try:
                    m.change_activation(op[1], output=False)
                except Exception as e:
                    frames = [f.name for f in traceback.extract_tb(e.__traceback__)]
                    rec["raised"] = f"{type(e).__name__}: {str(e)[:200]}"
                    rec["raised_in"] = [f for f in frames if f in CARRY_FRAMES]
                    obs["steps"].append(rec)
                    break
            elif op[0] in ("recreate", "clone", "reinit"):
                try:
                    if op[0] == "recreate":
                        m.recreate_network()
                    else:
                        parent = m
                        if op[0] == "clone":
                            m = parent.clone()
                        else:
                            if mut is None:
                                mut = Mutations(0, 1, 0.5, 0, 0, 0)
                            m = mut.reinit_from_mutated(parent)
                        # arguments are not modified, and the copy is independent of the original
                        rec["parent_intact"] = (snap(parent) == p_b and canon(parent.init_dict) == arch_b and ties(parent) == ties_b
                                                and structure(parent) == struct_b)
                        rec["shares_storage"] = bool(storage_ptrs(parent) & storage_ptrs(m))
                        del parent
                except Exception as e:
                    rec["raised"] = f"{type(e).__name__}: {str(e)[:200]}"
                    rec["raised_in"] = [op[0]]
                    obs["steps"].append(rec)
                    break
            elif op[0] == "rand":
                randomise(m, 5000 + case["seed"] * 131 + oi)
            elif op[0] == "step":
                sgd_like_step(m, 6000 + case["seed"] * 131 + oi)
            elif op[0] == "extreme":
                randomise_extreme(m, 6800 + case["seed"] * 131 + oi)
            elif op[0] == "train":
                B.train_forward(m, x)
            else:
                raise ValueError(op)
            try:
                # the module was in evaluation mode before the operation: what does the object compute as it is now?
                rec["all_eval"] = all_eval(m)
                rec["training"] = bool(m.training)
                if op[0] == "extreme":
                    extreme_now = True
                elif op[0] == "rand":
                    extreme_now = False
                y_raw = B.forward(m, x, mode="asis") if not extreme_now else torch.zeros(1)
                n_raw = y_raw.numel()
                rec["asis_equal"] = bool(y_b[:n_raw].shape == y_raw.reshape(-1).shape
                                         and torch.allclose(y_raw.reshape(-1), y_b[:n_raw], rtol=1e-5, atol=1e-6, equal_nan=True))
                y_a = outputs(m, x) if not extreme_now else torch.zeros(1)
                if extreme_now:
                    m.eval()
            except Exception as e:
                rec["raised"] = f"{type(e).__name__}: {str(e)[:200]}"
                rec["raised_in"] = ["forward"]
                obs["steps"].append(rec)
                break
            p_a, b_a = snap(m), snap_buffers(m)
            rec["same_arch"] = canon(m.init_dict) == arch_b
            rec["after"] = p_a
            rec["out_shape_equal"] = tuple(y_a.shape) == tuple(y_b.shape)
            rec["out_equal"] = bool(rec["out_shape_equal"] and torch.allclose(y_a, y_b, rtol=1e-5, atol=1e-6, equal_nan=True))
            rec["out_maxdiff"] = float((y_a - y_b).abs().max()) if rec["out_shape_equal"] and y_a.numel() else None
            rec["params_equal"] = p_a == p_b                      # parameters and buffers
            npar = len(list(m.named_parameters(remove_duplicate=False)))
            rec["weights_equal"] = p_a[:npar] == p_b[:npar]         # parameters only
            rec["buffers_equal"] = b_a == b_b
            rec["ties_equal"] = ties(m) == ties_b
            rec["ties"] = [ties_b, ties(m)] if not rec["ties_equal"] else None
            sa = structure(m)
            rec["struct_equal"] = sa == struct_b
            rec["struct_diff"] = [[i, a_, b_] for i, (a_, b_) in enumerate(zip(struct_b, sa)) if a_ != b_][:4] if not rec["struct_equal"] else None
            rec["buffers_changed"] = sorted({k for (k, s, v), (k2, s2, v2) in zip(b_a, b_b) if (s, v) != (s2, v2)}
                                             | ({k for k, _, _ in b_a} ^ {k for k, _, _ in b_b}))[:6]
            obs["steps"].append(rec)
        return obs

    def run_agent(self, case):
        """a real agent through Mutations.mutation (architecture mutations only): every evaluation network of the
        registry before/after each round, every shared (target) network after it"""
        torch.manual_seed(case["seed"]); np.random.seed(case["seed"])
        agent = B.build_agent(case["algo"])
        groups = B.agent_groups(agent)

        class _Nets:                                   # a list of networks (multi-agent) viewed as one module
            def __init__(self, nets):
                self.nets = nets if isinstance(nets, list) else [nets]
                self.is_list = isinstance(nets, list)

            def named_parameters(self, remove_duplicate=False):
                for i, n in enumerate(self.nets):
                    for k, p in n.named_parameters(remove_duplicate=remove_duplicate):
                        yield (f"{i}.{k}" if self.is_list else k), p

            def named_buffers(self):
                for i, n in enumerate(self.nets):
                    for k, b in n.named_buffers():
                        yield (f"{i}.{k}" if self.is_list else k), b

            def parameters(self):
                for n in self.nets:
                    yield from n.parameters()

            @property
            def init_dict(self):
                return [n.init_dict for n in self.nets]

            @property
            def last_mutation_attr(self):
                return [n.last_mutation_attr for n in self.nets]

        def view(name):
            return _Nets(getattr(agent, name))
        for gi, (ev, _) in enumerate(groups):
            randomise(view(ev), 7000 + case["seed"] * 17 + gi)
        mut = Mutations(0, 1, 0.5, 0, 0, 0, rand_seed=case["seed"])
        obs = {"groups": [[ev, sh] for ev, sh in groups], "init": {ev: snap(view(ev)) for ev, _ in groups}, "rounds": []}
        for r in range(case["rounds"]):
            arch_b = {ev: canon(view(ev).init_dict) for ev, _ in groups}
            try:
                [agent] = mut.mutation([agent])
            except Exception as e:
                frames = [f.name for f in traceback.extract_tb(e.__traceback__)]
                obs["rounds"].append({"raised": f"{type(e).__name__}: {str(e)[:200]}",
                                      "raised_in": [f for f in frames if f in CARRY_FRAMES + ("reinit_from_mutated", "load_state_dicts")]})
                break
            rec = {"mut": str(agent.mut), "evals": {}, "shared": {}}
            for ev, shs in groups:
                net = view(ev)
                rec["evals"][ev] = {"after": snap(net), "same_arch": canon(net.init_dict) == arch_b[ev], "applied": str(net.last_mutation_attr)}
                for sh in shs:
                    rec["shared"][sh] = {"after": snap(view(sh)), "same_arch": canon(view(sh).init_dict) == canon(net.init_dict)}
            obs["rounds"].append(rec)
            if r + 1 < case["rounds"]:
                for gi, (ev, _) in enumerate(groups):       # "training" between generations
                    randomise(view(ev), 9000 + case["seed"] * 17 + gi + 100 * r)
                for ev, _ in groups:
                    rec["evals"][ev]["trained"] = snap(view(ev))
        return obs

    def _known(self):
        if not hasattr(self, "_known_cache"):
            self._known_cache = vlib.load_known()[0]
        return self._known_cache

    # ---------------------------------------------------------------- model term
    def coq_term(self, case, obs):
        if case["kind"] == "unit":
            if case["mode"] == "load":
                return (f"check_load {cq_named(obs['old'])} {cq_named(obs['new'])} {cq_named(obs['res'])} "
                        f"{'true' if obs['err'] else 'false'}")
            if case["mode"] == "preserve":
                if obs["res"] is None:
                    return "false"
                return f"check_preserve {cq_named(obs['old'])} {cq_named(obs['new'])} {cq_named(obs['res'])}"
            res = "None" if obs["res"] is None else f"(Some {cq_named(obs['res'])})"
            return f"check_shrink {cq_named(obs['old'])} {cq_named(obs['new'])} {res}"
        if case["kind"] == "agent":
            terms = []
            for ev, shs in obs["groups"]:
                names, binds = {}, []

                def ref(snapshot):
                    k = json.dumps(snapshot)
                    if k not in names:
                        names[k] = f"n{len(names)}"
                        binds.append(f"let {names[k]} := {cq_named(snapshot)} in")
                    return names[k]
                init = ref(obs["init"][ev])
                steps = []
                for rec in obs["rounds"]:
                    if "raised" in rec:
                        break
                    e = rec["evals"][ev]
                    steps.append(f"{'Same' if e['same_arch'] else 'Mut'} {ref(e['after'])}")
                    for sh in shs:
                        steps.append(f"Clone {ref(rec['shared'][sh]['after'])}")
                    if "trained" in e:
                        steps.append(f"Rand {ref(e['trained'])}")
                terms.append("(" + " ".join(binds) + f" check_chain {init} [{'; '.join(steps)}])")
            return " && ".join(terms)
        # The model describes the repaired semantics. Where the oracle reports a failing step that is a LISTED
        # known finding (defect not repaired on this tree yet), the chain is compared up to that step only;
        # any other oracle failure leaves the comparison in place (it is reported with its input anyway).
        upto = len(obs["steps"])
        vs = self.oracle(case, obs)
        if vs and all(vlib.match_known(self.pid, v.signature, self._known()) is not None for v in vs):
            upto = min(getattr(v, "step", upto) for v in vs)
        # identical snapshots (clone, no-op mutation, training-mode forward) are bound once
        names, binds = {}, []

        def ref(snapshot):
            k = json.dumps(snapshot)
            if k not in names:
                names[k] = f"n{len(names)}"
                binds.append(f"let {names[k]} := {cq_named(snapshot)} in")
            return names[k]
        init = ref(obs["init"])
        steps = []
        for op, rec in list(zip(case["ops"], obs["steps"]))[:upto]:
            if "raised" in rec:
                break
            a = ref(rec["after"])
            if op[0] in ("mut", "recreate", "act", "bad", "sibling"):
                steps.append(f"{'Same' if rec['same_arch'] else 'Mut'} {a}")
            elif op[0] in ("clone", "reinit"):
                steps.append(f"Clone {a}")
            else:
                steps.append(f"Rand {a}")
        modes = "".join(f" && check_mode false {'true' if rec['training'] else 'false'} {'true' if rec['all_eval'] else 'false'}"
                        for op, rec in list(zip(case["ops"], obs["steps"]))[:upto]
                        if op[0] in ("mut", "recreate", "act", "clone") and "training" in rec and "raised" not in rec)
        return " ".join(binds) + f" (check_chain {init} [{'; '.join(steps)}]{modes})"

    # ---------------------------------------------------------------- oracle
    @staticmethod
    def common_slice_violations(before, after, fresh=None):
        """before/after/fresh: snapshots. Returns [(clause, name, detail)]"""
        out = []
        bd = {k: (s, v) for k, s, v in before}
        fd = {k: (s, v) for k, s, v in fresh} if fresh is not None else None
        for k, s, v in after:
            a = arr([k, s, v])
            if fd is not None:
                if k not in fd or fd[k][0] != s:
                    out.append(("signature", k, f"result parameter {k} has size {s}, the new network had {fd.get(k, [None])[0]}"))
                    continue
            if k in bd:
                so = bd[k][0]
                o = arr([k, so, bd[k][1]])
                if len(so) != len(s):
                    continue
                sl = tuple(slice(0, min(x, y)) for x, y in zip(so, s))
                if not np.array_equal(o[sl], a[sl]):
                    idx = np.argwhere(o[sl] != a[sl])[0].tolist()
                    out.append(("common-slice", k, f"{k}: old size {so} new size {s}: entry {idx} was {int(o[tuple(idx)])} before and is {int(a[tuple(idx)])} after"))
                    continue
                if fd is not None:
                    f = arr([k, s, fd[k][1]])
                    mask = np.ones(a.shape, dtype=bool)
                    mask[sl] = False
                    if not np.array_equal(a[mask], f[mask]):
                        out.append(("new-units", k, f"{k}: old size {so} new size {s}: entries outside the common range are not the freshly initialised ones"))
            elif fd is not None and not np.array_equal(a, arr([k, s, fd[k][1]])):
                out.append(("fresh-name", k, f"{k} does not exist in the old network but its freshly initialised values were changed"))
        if fd is not None and [k for k, _, _ in after] != [k for k, _, _ in fresh]:
            out.append(("signature", "names", "result names differ from those of the new network"))
        return out

    def oracle(self, case, obs):
        out = []
        if case["kind"] == "unit":
            mode = case["mode"]
            if mode == "load":
                same = self._sig(obs["old"]) == self._sig(obs["new"])
                if same and (obs["err"] or obs["res"] != obs["old"]):
                    out.append(Violation("load", "unit:load:same-signature-not-faithful",
                                         f"load_state_dict between identical signatures: err={obs['err']}, equal={obs['res'] == obs['old']}"))
                if not same and not obs["err"]:
                    out.append(Violation("load", "unit:load:mismatch-silent",
                                         "load_state_dict between different signatures did not raise: clone() could silently differ"))
                return out
            if obs["res"] is None:
                # inside the guard the functions must not fail
                out.append(Violation("error", f"unit:{mode}:error", f"{mode} raised {obs['err']} on old={case['old']} new={case['new']}"))
                return out
            for clause, k, detail in self.common_slice_violations(obs["old"], obs["res"], obs["new"]):
                out.append(Violation(clause, f"unit:{mode}:{clause}:{category(k)}", f"{mode}_parameters: {detail}"))
                break
            if obs["old_after"] != obs["old"]:
                out.append(Violation("old-intact", f"unit:{mode}:old-net-modified", "the old network's parameters were modified"))
            return out
        if case["kind"] == "agent":
            algo = case["algo"]
            for ev, shs in obs["groups"]:
                cur = obs["init"][ev]
                for r, rec in enumerate(obs["rounds"]):
                    if "raised" in rec:
                        if rec["raised_in"]:
                            out.append(Violation("error", f"agent:mutation-raises-carrying-weights:{algo}:{rec['raised'].split(':')[0]}",
                                                 f"{algo} round {r}: Mutations.mutation failed inside {rec['raised_in']}: {rec['raised']}"))
                            return out
                        break
                    e = rec["evals"][ev]
                    where = f"{algo} round {r} (agent.mut={rec['mut']}) network {ev} (applied {e['applied']})"
                    for clause, k, detail in self.common_slice_violations(cur, e["after"]):
                        out.append(Violation(clause, f"agent:{clause}:{algo}:{ev}:{category(k)}", f"{where}: {detail}"))
                        break
                    if e["same_arch"] and e["after"] != cur:
                        out.append(Violation("same-arch-params", f"agent:same-arch-params:{algo}:{ev}", f"{where}: init_dict unchanged but parameters differ"))
                    for sh in shs:
                        srec = rec["shared"][sh]
                        if srec["after"] != e["after"] or not srec["same_arch"]:
                            out.append(Violation("shared-reinit", f"agent:shared-not-equal:{algo}:{sh}",
                                                 f"{where}: shared network {sh} re-created by reinit_from_mutated does not carry the parameters / init_dict of {ev}"))
                    if out:
                        return out
                    cur = e.get("trained", e["after"])
            return out
        cur = obs["init"]
        blk = case["block"]
        for oi, (op, rec) in enumerate(zip(case["ops"], obs["steps"])):
            where = f"{blk} step {oi} {op}"
            if "raised" in rec:
                exc = rec["raised"].split(":")[0]
                if rec["raised_in"] == ["forward"]:
                    out.append(Violation("forward-raises", f"e2e:forward-raises:{blk}:{exc}",
                                         f"{where}: the forward pass fails after the operation: {rec['raised']}"))
                elif rec["raised_in"] and op[0] not in ("mut", "act"):
                    out.append(Violation(f"{op[0]}-raises", f"e2e:{op[0]}-raises:{blk}:{exc}",
                                         f"{where}: {op[0]} fails: {rec['raised']}"))
                elif rec["raised_in"]:
                    out.append(Violation("error", f"e2e:mutation-raises-carrying-weights:{blk}:{exc}",
                                         f"{where}: {rec['raised']} raised inside {rec['raised_in']}"))
                for v in out:
                    v.step = oi
                break
            if op[0] != "train" and not rec["ties_equal"]:
                out.append(Violation("tie-changed", f"e2e:tie-changed:{blk}",
                                     f"{where}: the parameter-tying partition (names sharing storage) was {rec['ties'][0]} and is {rec['ties'][1]}: "
                                     f"tied weights silently became independent (or vice versa); they diverge at the next in-place update"))
            elif op[0] in ("clone", "reinit") and rec["params_equal"] and not rec["struct_equal"]:
                out.append(Violation("structure", f"e2e:{op[0]}-structure:{blk}",
                                     f"{where}: the copy has equal parameters but another module-class structure: (index, original, copy) {rec['struct_diff']}"))
            elif op[0] in ("mut", "recreate", "bad", "sibling") and rec["same_arch"] and rec["params_equal"] and not rec["struct_equal"]:
                out.append(Violation("structure", f"e2e:same-arch-structure:{blk}",
                                     f"{where}: init_dict and parameters unchanged but the module-class structure changed: (index, before, after) {rec['struct_diff']}"))
            elif op[0] == "sibling" and not (rec["same_arch"] and rec["params_equal"] and rec["out_equal"]):
                out.append(Violation("sibling-changed-parent", f"e2e:sibling-changed-parent:{blk}",
                                     f"{where}: a clone of the module was mutated ({rec['sibling']}) and discarded; the PARENT changed: init_dict equal "
                                     f"{rec['same_arch']}, parameters/buffers equal {rec['params_equal']}, outputs equal {rec['out_equal']}"))
            elif op[0] == "bad" and rec["caught"] and rec["same_arch"] and not (rec["params_equal"] and rec["out_equal"]):
                out.append(Violation("failed-call-changed-network", f"e2e:failed-call-changed-network:{blk}",
                                     f"{where}: the call raised ({rec['caught']}) and left init_dict unchanged, but parameters equal {rec['params_equal']}, outputs equal {rec['out_equal']}"))
            elif op[0] in ("mut", "recreate", "act", "bad"):
                for clause, k, detail in self.common_slice_violations(cur, rec["after"]):
                    out.append(Violation(clause, f"e2e:{clause}:{blk}:{category(k)}", f"{where}: {detail}"))
                    break
                if rec["same_arch"]:
                    if not rec["params_equal"]:
                        out.append(Violation("same-arch-params", f"e2e:same-arch-params:{blk}",
                                             f"{where}: init_dict unchanged but parameters differ after the operation"))
                    elif rec["out_equal"] and not rec["asis_equal"]:
                        out.append(Violation("eval-mode-lost", f"e2e:eval-mode-lost:mutation:{blk}",
                                             f"{where}: module was in eval(); init_dict, parameters, buffers unchanged and outputs agree once the mode is "
                                             f"set again, but as the mutation leaves it (sub-modules all in eval mode: {rec['all_eval']}) the network computes different outputs"))
                    elif not rec["out_equal"]:
                        if not rec["buffers_equal"]:
                            out.append(Violation("same-arch-buffers-lost", f"e2e:same-arch-buffers-lost:{blk}",
                                                 f"{where}: init_dict and all parameters unchanged, but evaluation-mode outputs differ by {rec['out_maxdiff']}: "
                                                 f"buffers {rec['buffers_changed']} were re-initialised by the re-creation (running statistics lost)"))
                        else:
                            out.append(Violation("same-arch-output", f"e2e:same-arch-output:{blk}",
                                                 f"{where}: init_dict, parameters and buffers unchanged but outputs differ by {rec['out_maxdiff']}"))
            elif op[0] in ("clone", "reinit"):
                if not rec.get("parent_intact", True):
                    out.append(Violation("argument-modified", f"e2e:{op[0]}-modified-original:{blk}",
                                         f"{where}: {op[0]} changed the module it was given (parameters, buffers, init_dict, tying or structure)"))
                elif rec.get("shares_storage"):
                    out.append(Violation("copy-aliases-original", f"e2e:{op[0]}-aliases-original:{blk}",
                                         f"{where}: the copy shares tensor storage with the original: training one changes the other"))
                elif not rec["params_equal"]:
                    out.append(Violation(f"{op[0]}-params", f"e2e:{op[0]}-params:{blk}", f"{where}: parameters of the copy differ from the original"))
                elif op[0] == "clone" and rec["out_equal"] and not rec["asis_equal"]:
                    out.append(Violation("eval-mode-lost", f"e2e:eval-mode-lost:clone:{blk}",
                                         f"{where}: module was in eval(); the clone has equal parameters and buffers and equal outputs once the mode is set, "
                                         f"but as clone() returns it (all sub-modules in eval mode: {rec['all_eval']}) it does not reproduce the original's outputs"))
                elif not rec["out_equal"]:
                    out.append(Violation(f"{op[0]}-output", f"e2e:{op[0]}-output:{blk}",
                                         f"{where}: outputs of the copy differ by {rec['out_maxdiff']} (buffers equal: {rec['buffers_equal']}, init_dict equal: {rec['same_arch']})"))
                if not rec["same_arch"]:
                    out.append(Violation(f"{op[0]}-arch", f"e2e:{op[0]}-arch:{blk}", f"{where}: init_dict of the copy differs"))
            elif op[0] == "train":
                if not rec["weights_equal"]:
                    out.append(Violation("harness", "harness-error:train-forward-changed-parameters", where, found_input=False))
            if out:
                for v in out:
                    v.step = oi
                break
            cur = rec["after"]
        return out

    # ---------------------------------------------------------------- evidence helpers
    def key(self, case):
        if case["kind"] == "agent":
            return super().key(case)                   # the seed determines the sampled mutations
        return super().key({k: v for k, v in case.items() if k != "seed"})

    @staticmethod
    def _sig(entries):
        return [(k, tuple(s)) for k, s, _ in entries]

    def nontrivial(self, case, obs):
        if case["kind"] == "agent":
            return any(self._sig(rec["evals"][ev]["after"]) != self._sig(obs["init"][ev]) for rec in obs["rounds"] if "raised" not in rec for ev, _ in obs["groups"])
        if case["kind"] == "unit":
            return self._sig(obs["old"]) != self._sig(obs["new"])
        cur = self._sig(obs["init"])
        for op, rec in zip(case["ops"], obs["steps"]):
            if "raised" in rec:
                break
            if op[0] in ("mut", "recreate", "act", "bad") and self._sig(rec["after"]) != cur:
                return True
            cur = self._sig(rec["after"])
        return False

    def classify(self, case, obs):
        if case["kind"] == "agent":
            labs = ["kind=agent", f"algo={case['algo']}"]
            for rec in obs["rounds"]:
                if "raised" in rec:
                    labs.append("agent-mut=raised")
                    break
                labs.append(f"agent-mut={rec['mut'].split('.')[-1]}")
                labs += [f"agent-shared-reinit" for _ in rec["shared"]]
            return labs
        if case["kind"] == "unit":
            labs = ["kind=unit", f"fn={case['mode']}"]
            od = dict((k, s) for k, s in self._sig(obs["old"]))
            ranks, br = set(), set()
            for k, s in self._sig(obs["new"]):
                ranks.add(len(s))
                if k not in od:
                    br.add("branch=name-absent")
                elif od[k] == s:
                    br.add("branch=same-size")
                else:
                    br.add("branch=slice-copy")
                    if any(a < b for a, b in zip(od[k], s)):
                        br.add("axis-grown")
                    if any(a > b for a, b in zip(od[k], s)):
                        br.add("axis-shrunk")
            if obs["res"] is None:
                br.add("branch=error")
            labs += sorted(br) + [f"rank={r}" for r in sorted(ranks)]
            labs += sorted({f"layer={d[0]}" for _, d in case["new"]})
            return labs
        labs = ["kind=e2e", f"block={case['block']}"]
        cur = self._sig(obs["init"])
        for op, rec in zip(case["ops"], obs["steps"]):
            if "raised" in rec:
                labs.append(f"op={op[0]}:{op[1].split('.')[-1] if op[0] == 'mut' else ''}:raised-{'in-' + rec['raised_in'][0] if rec['raised_in'] else 'elsewhere(C03)'}")
                break
            if op[0] == "bad":
                labs.append(f"op=bad:{'raised-' + rec['caught'].split(':')[0] if rec['caught'] else 'accepted'}")
            elif op[0] == "sibling":
                labs.append("op=sibling:" + ("raised" if rec["sibling"].startswith("raised") else "mutated"))
            elif op[0] == "act":
                labs.append(f"op=act:{op[1]}")
            elif op[0] == "mut":
                ch = "arch-changed" if self._sig(rec["after"]) != cur else ("arch-same" if rec["same_arch"] else "arch-same-signature")
                labs.append(f"op=mut:{op[1].split('.')[-1]}:{ch}")
            else:
                labs.append(f"op={op[0]}")
            cur = self._sig(rec["after"])
        return labs

    def neighbours(self, case, rng):
        if case["kind"] == "agent":
            if case["rounds"] > 1:
                yield dict(case, rounds=case["rounds"] - 1)
            return
        if case["kind"] == "e2e":
            for n in range(1, len(case["ops"])):
                c = dict(case); c["ops"] = case["ops"][:n]
                yield c
        else:
            c = dict(case); c["mode"] = "preserve" if case["mode"] == "shrink" else "shrink"
            yield c


if __name__ == "__main__":
    sys.exit(vlib.run_check(C04()))
