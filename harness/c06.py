"""C06 — hyperparameter mutation stays in its configured range and takes effect.

Value level : RLParameter.mutate with torch.rand scripted, compared bit for bit with the binary64
              instance of the Coq model (and with the rational instance where the float arithmetic is exact).
Agent level : populations built by create_population from ONE shared HyperparameterConfig, for every
              algorithm; sequences of Mutations.mutation (rl_hp only) / single-individual mutations / clones with
              torch.randperm and torch.rand scripted; observed: every configured attribute, the label, the lr of
              every param group of every registered optimizer.
"""
from __future__ import annotations

import itertools
import math
import struct
import sys
from fractions import Fraction

import vlib
from vlib import Violation, coq_float, coq_Q, coq_bool

# ---------------------------------------------------------------------------------------------
# helpers
# ---------------------------------------------------------------------------------------------
F32_BELOW_HALF = 0.4999999701976776  # largest float32 below 0.5
U_GRID = [0.0, 0.25, F32_BELOW_HALF, 0.5, 0.75, 0.9999999403953552]


def f32(x: float) -> float:
    return struct.unpack("f", struct.pack("f", x))[0]


def is_int(x) -> bool:
    return isinstance(x, int) and not isinstance(x, bool)


def integral(x) -> bool:
    return is_int(x) or (isinstance(x, float) and math.isfinite(x) and x == int(x))


def clip_cast(par, own, u):
    """The property, stated directly: own value times the factor picked by the coin, clipped, converted."""
    f = par["shrink"] if u < 0.5 else par["grow"]
    t = own * f
    c = min(max(t, par["min"]), par["max"])
    return int(c) if par["int"] else float(c)


def branch(par, own, u, result):
    f = par["shrink"] if u < 0.5 else par["grow"]
    t = own * f
    if t < par["min"] or (u < 0.5 and not t > par["min"]):
        b = "clipped-low"
    elif t > par["max"] or (u >= 0.5 and not t < par["max"]):
        b = "clipped-high"
    else:
        b = "scaled"
    if par["int"] and b == "scaled" and result != t:
        b = "cast-changed"
    return b


def coq_param(par, num):
    return (f"(Build_param {num(par['min'])} {num(par['max'])} {num(par['shrink'])} {num(par['grow'])} "
            f"{coq_bool(par['int'])})")


def cf(x):
    return coq_float(float(x))


class Scripted:
    """Replaces torch.rand(1) / torch.randperm(n) by scripted draws while active."""

    def __init__(self, perms=(), rands=(), nconfig=None):
        self.perms = list(perms)
        self.rands = list(rands)
        self.nconfig = nconfig
        self.used_perm = 0
        self.used_rand = 0

    def __enter__(self):
        import torch
        self.torch = torch
        self.o_rand, self.o_randperm = torch.rand, torch.randperm

        def fake_rand(*size, **kw):
            shape = tuple(size[0]) if len(size) == 1 and isinstance(size[0], (tuple, list)) else tuple(size)
            if self.rands and all(isinstance(d, int) for d in shape) and math.prod(shape) == 1 and not kw.get("generator"):
                self.used_rand += 1           # a single uniform draw: the coin of mutate()
                return torch.full(shape, self.rands.pop(0), dtype=torch.float64)
            return self.o_rand(*size, **kw)

        def fake_randperm(n, *a, **kw):
            if self.perms and (self.nconfig is None or n == self.nconfig):
                k = self.perms.pop(0)
                self.used_perm += 1
                assert 0 <= k < n, f"scripted index {k} but randperm({n})"
                return torch.tensor([k] + [i for i in range(n) if i != k], dtype=torch.long)
            return self.o_randperm(n, *a, **kw)

        torch.rand, torch.randperm = fake_rand, fake_randperm
        return self

    def __exit__(self, *exc):
        self.torch.rand, self.torch.randperm = self.o_rand, self.o_randperm
        return False

    def assert_consumed(self):
        if self.perms or self.rands:
            raise RuntimeError(f"scripted draws not consumed by the implementation: {len(self.perms)} randperm, "
                               f"{len(self.rands)} rand left (the code no longer draws with torch.randperm/torch.rand(1)?)")


# ---------------------------------------------------------------------------------------------
# algorithm table (agent level)
# ---------------------------------------------------------------------------------------------
LR2 = ("DDPG", "TD3", "MADDPG", "MATD3")
ALGOS = ["DQN", "Rainbow DQN", "CQN", "DDPG", "TD3", "PPO", "NeuralUCB", "NeuralTS", "MADDPG", "MATD3", "IPPO"]
# extra float / int hyperparameters that exist as plain attributes (besides lr*, batch_size, learn_step)
EXTRA = {
    "DQN": ["gamma", "tau"], "Rainbow DQN": ["gamma", "tau", "beta"], "CQN": ["gamma", "tau"],
    "DDPG": ["gamma", "tau", "policy_freq"], "TD3": ["gamma", "tau", "policy_freq"],
    "PPO": ["ent_coef", "clip_coef", "vf_coef", "gae_lambda", "update_epochs"],
    "NeuralUCB": ["gamma", "reg"], "NeuralTS": ["gamma", "reg"],
    "MADDPG": ["gamma", "tau"], "MATD3": ["gamma", "tau", "policy_freq"],
    "IPPO": ["ent_coef", "clip_coef", "vf_coef", "gae_lambda", "update_epochs"],
}
INT_HPS = {"batch_size", "learn_step", "policy_freq", "update_epochs"}
# algorithms whose learn() the harness drives (a TensorDict batch suffices); the optimizer steps are recorded
LEARN_ALGOS = ("DQN", "Rainbow DQN", "CQN", "DDPG", "TD3", "NeuralUCB", "NeuralTS", "PPO", "IPPO", "MADDPG", "MATD3")


INIT_KEY = {"lr": "LR", "lr_actor": "LR_ACTOR", "lr_critic": "LR_CRITIC", "batch_size": "BATCH_SIZE", "learn_step": "LEARN_STEP",
            "gamma": "GAMMA", "tau": "TAU", "policy_freq": "POLICY_FREQ", "ent_coef": "ENT_COEF", "clip_coef": "CLIP_COEF",
            "vf_coef": "VF_COEF", "gae_lambda": "GAE_LAMBDA", "update_epochs": "UPDATE_EPOCHS", "beta": "BETA", "reg": "REG"}
# float-typed hyperparameters with a range that contains the integer the constructor is given: (min, max, integer start)
TYPED_RANGE = {"gamma": (0.9, 1.0, 1), "gae_lambda": (0.5, 2.0, 1), "tau": (0.25, 1.0, 1), "clip_coef": (0.1, 1.0, 1),
               "ent_coef": (0.0, 1.0, 1), "vf_coef": (0.25, 2.0, 1), "beta": (0.25, 1.0, 1), "reg": (0.5, 4.0, 1),
               "lr": (0.25, 1.0, 1), "lr_actor": (0.25, 1.0, 1), "lr_critic": (0.25, 1.0, 1)}


def expected_lr_name(algo, opt_name):
    """which learning-rate attribute an optimizer is built with in the algorithm's source (ground truth that does
    not go through the registry's own name inference)"""
    if algo in LR2:
        return "lr_critic" if "critic" in opt_name else "lr_actor" if "actor" in opt_name else None
    return "lr"


def lr_names(algo):
    return ["lr_actor", "lr_critic"] if algo in LR2 else ["lr"]


def default_par(name, rng=None):
    if name.startswith("lr"):
        return {"min": 1e-4, "max": 1e-2, "shrink": 0.8, "grow": 1.2, "int": False}
    if name == "batch_size":
        return {"min": 8, "max": 64, "shrink": 0.8, "grow": 1.2, "int": True}
    if name == "learn_step":
        return {"min": 1, "max": 16, "shrink": 0.75, "grow": 1.5, "int": True}
    if name in ("policy_freq", "update_epochs"):
        return {"min": 1, "max": 4, "shrink": 0.5, "grow": 2.0, "int": True}
    return {"min": 0.001, "max": 0.999, "shrink": 0.8, "grow": 1.2, "int": False}


def random_par(name, rng):
    p = default_par(name)
    r = rng.random()
    if r < 0.35:
        return p
    if p["int"]:
        lo = rng.choice([1, 2, 4, 8])
        hi = lo * rng.choice([1, 2, 4, 16])
        if name == "batch_size":
            lo, hi = max(lo, 2), max(hi, 2) if hi >= max(lo, 2) else max(lo, 2)
        return {"min": lo if rng.random() < 0.7 else float(lo), "max": hi, "shrink": rng.choice([0.5, 0.75, 0.8, 0.9, 1.0]),
                "grow": rng.choice([1.0, 1.1, 1.2, 1.5, 2.0, 3.0]), "int": True}
    if name.startswith("lr"):
        lo = rng.choice([1e-5, 6.25e-5, 1e-4, 3e-4, 1e-3])
        hi = lo * rng.choice([1.0, 1.5, 10.0, 100.0])
    else:
        lo = rng.choice([0.0009765625, 0.001, 0.01, 0.125])
        hi = min(0.999, lo * rng.choice([1.0, 2.0, 8.0, 500.0]))
    return {"min": lo, "max": hi, "shrink": rng.choice([0.5, 0.8, 0.9, 0.99, 1.0]),
            "grow": rng.choice([1.0, 1.01, 1.2, 1.5, 2.0, 10.0]), "int": False}


# ---------------------------------------------------------------------------------------------
# the driver
# ---------------------------------------------------------------------------------------------
class C06(vlib.Driver):
    pid = "C06"
    preamble = ("From Coq Require Import ZArith QArith PrimFloat.\n"
                "From AgileV Require Import C06.Model C06.Check.\nClose Scope Q_scope.\nOpen Scope nat_scope.")
    rule = ("value level: (min,max,shrink,grow,dtype) x points (current value, uniform draw) incl. all boundaries "
            "(v*f == bound, v == bound, v outside, draw at/next to 0.5), and drift sequences of repeated mutate(); "
            "agent level: (algorithm, population size, hp configuration, op list of rounds / single mutations / clones / other "
            "mutation kinds); construction with configured names that are / are not attributes. "
            "Distinct = distinct (kind, dtype or algorithm, configuration, coin outcomes and sampled names); draws that "
            "give the same coin are not counted twice. Non-trivial = some value changed or some clip fired.")
    trusted_base = ["hand-written model coq/theories/C06/Model.v (generic in the number carrier; Q instance proved, "
                    "binary64 instance compared)",
                    "correspondence harness harness/c06.py (scripted torch.rand / torch.randperm, registry extraction, "
                    "exact float literals)"]
    assumptions = ["PrimFloat binary64 = CPython float (validated bit for bit by K)",
                   "int() of a float below 2^52 in magnitude (ftrunc); integer hyperparameters below 2^53",
                   "rounding gap between the rational theorems and float execution: the float result is the correctly "
                   "rounded product, compared bit-exactly on the binary64 instance",
                   "architecture / parameter mutations do not touch hyperparameter attributes (outside this property)"]
    shard = 60

    def setup(self, tier):
        import torch
        torch.set_num_threads(1)       # tiny networks; avoids thread contention on a shared machine

    # ---------- generation
    def generate(self, tier, rng):
        cases = []
        quick = tier == "quick"
        self.exhaustive = True
        # (a1) boundary-complete grid, small dyadic numbers: float arithmetic is exact, so the rational instance is compared too
        for isint in (False, True):
            mins = [0, 1, 2] if isint else [0, 1, 1.5, 2]
            for mn in mins:
                for mx in sorted({mn, 4, 8}):
                    if mx < mn:
                        continue
                    for sh, gr in itertools.product([0.5, 0.75, 1.0], [1.0, 1.5, 2.0]):
                        par = {"min": mn, "max": mx, "shrink": sh, "grow": gr, "int": isint}
                        vs = sorted({0, 0.5, 1, mn, mn / sh, (mn + mx) / 2, 3, mx / gr, mx, 16, mn * 2})
                        vs = [int(v) if (isint and float(v).is_integer()) else v for v in vs]
                        if mn == 0:
                            vs += [0.0, -0.0]
                        if not isint:   # a float hyperparameter whose current value is a Python int object
                            vs += [int(v) for v in vs if float(v).is_integer() and not is_int(v)]
                        pts = [[v, u] for v in vs for u in U_GRID]
                        cases.append({"kind": "value", "par": par, "pts": pts})
        # (a2) fractional bounds on an int hyperparameter (K only; the range clause of the oracle needs integer bounds)
        cases.append({"kind": "value", "par": {"min": 1.5, "max": 10, "shrink": 0.5, "grow": 2.0, "int": True},
                      "pts": [[2, 0.25], [3, 0.25], [8, 0.75], [1.6, 0.25]]})
        # (a3) seeded configurations
        nval = 60 if quick else 1000
        for _ in range(nval):
            par, vgen = self.random_value_par(rng)
            pts = []
            for _ in range(60):
                pts.append([vgen(), rng.choice(U_GRID) if rng.random() < 0.4 else f32(rng.random())])
            cases.append({"kind": "value", "par": par, "pts": pts})
        # (a4) drift: repeated mutate() on one object
        nseq = 40 if quick else 500
        for _ in range(nseq):
            par, vgen = self.random_value_par(rng)
            n = rng.choice([10, 40]) if quick else rng.choice([20, 100, 300])
            bias = rng.choice([0.2, 0.5, 0.8])
            us = [f32(rng.random() * 0.5) if rng.random() < bias else f32(0.5 + rng.random() * 0.5) for _ in range(n)]
            cases.append({"kind": "seq", "par": par, "v0": vgen(), "us": us})
        # (b) agent level
        cases += self.pop_cases(tier, rng)
        # (c) _registry_init: a configured name that is not an attribute is rejected at construction
        for algo in ALGOS:
            good = lr_names(algo) + ["batch_size", "learn_step"] + EXTRA[algo]
            bogus = ["does_not_exist", "LR", "learning_rate", "lr_", "batchsize"]
            for j in range(2 if quick else 6):
                cfg = rng.sample(good, rng.randint(1, 3))
                if j % 2 == 0:
                    cfg.insert(rng.randint(0, len(cfg)), rng.choice(bogus))
                cases.append({"kind": "init", "algo": algo, "cfg": cfg})
        return cases

    def random_value_par(self, rng):
        r = rng.random()
        if r < 0.3:      # learning-rate like
            lo = rng.choice([1e-5, 6.25e-5, 1e-4, 1e-3])
            hi = lo * rng.choice([1, 10, 100, 160])
            par = {"min": lo, "max": hi, "shrink": rng.choice([0.8, 0.5, 0.9, 0.99]), "grow": rng.choice([1.2, 1.5, 2.0, 1.01]), "int": False}
        elif r < 0.6:    # batch-size like
            lo = rng.choice([1, 2, 8, 16, 20])
            hi = lo * rng.choice([1, 2, 8, 64])
            par = {"min": lo if rng.random() < 0.8 else float(lo), "max": hi, "shrink": rng.choice([0.8, 0.75, 0.5, 0.9]),
                   "grow": rng.choice([1.2, 1.5, 2.0, 1.1]), "int": True}
        elif r < 0.8:    # arbitrary floats, also negative and "wrong-way" factors
            a, b = sorted([round(rng.uniform(-50, 50), rng.choice([0, 1, 3])), round(rng.uniform(-50, 50), rng.choice([0, 1, 3]))])
            par = {"min": a, "max": b, "shrink": rng.choice([0.8, 0.3, 1.0, 1.3, -0.5]), "grow": rng.choice([1.2, 2.5, 1.0, 0.7, -1.5]), "int": False}
        else:            # arbitrary ints incl. negative ranges
            a, b = sorted([rng.randint(-40, 40), rng.randint(-40, 40)])
            par = {"min": a, "max": b, "shrink": rng.choice([0.8, 0.3, 1.0, 1.3]), "grow": rng.choice([1.2, 2.5, 1.0, 0.7]), "int": True}
        mn, mx, sh, gr, isint = par["min"], par["max"], par["shrink"], par["grow"], par["int"]

        def vgen():
            c = rng.random()
            if c < 0.15:
                v = mn
            elif c < 0.3:
                v = mx
            elif c < 0.45:
                v = mn / sh if sh else mn
            elif c < 0.6:
                v = mx / gr if gr else mx
            elif c < 0.9:
                v = mn + (mx - mn) * rng.random()
            else:
                v = mn - abs(mx - mn + 1) * rng.random() if rng.random() < 0.5 else mx + abs(mx - mn + 1) * rng.random()
            if isint:
                v = int(v) if rng.random() < 0.8 else float(int(v))
            else:
                v = float(v)
            return v
        return par, vgen

    def pop_cases(self, tier, rng):
        cases = []
        quick = tier == "quick"
        per_algo = 5 if quick else 60
        for algo in ALGOS:
            base = lr_names(algo) + ["batch_size", "learn_step"]
            for j in range(per_algo):
                names = list(base)
                if j % 3 == 2:
                    extra = list(EXTRA[algo]); rng.shuffle(extra)
                    names += extra[:rng.randint(1, len(extra))]
                if j % 5 == 4:
                    names = [n for n in names if rng.random() < 0.6] or [names[0]]
                rng.shuffle(names)
                hp = {n: (default_par(n) if j == 0 else random_par(n, rng)) for n in names}
                size = 1 + (j % 4) if j else 3
                nops = rng.randint(1, 10)
                ops = []
                for t in range(nops):
                    r = rng.random()
                    if r < 0.08 and size > 1:
                        ops.append(["round_keep_elite", [[self.pick_index(names, algo, rng), self.pick_u(rng)] for _ in range(size - 1)]])
                    elif r < 0.7 or (size == 1 and r >= 0.9):
                        ops.append(["round", [[self.pick_index(names, algo, rng), self.pick_u(rng)] for _ in range(size)]])
                    elif r < 0.8:
                        ops.append(["one", rng.randrange(size), self.pick_index(names, algo, rng), self.pick_u(rng)])
                    elif r < 0.9:
                        if algo in LEARN_ALGOS and rng.random() < 0.5:
                            ops.append(["learn", rng.randrange(size), rng.randrange(1000)])
                        else:
                            ops.append(["other", rng.randrange(size), rng.choice(["arch", "param", "act"]), rng.randrange(1000)])
                    else:
                        s = rng.randrange(size)
                        d = rng.choice([i for i in range(size) if i != s])
                        ops.append([rng.choice(["clone", "clone", "loadinto", "loadnew"]), s, d])
                cases.append({"kind": "pop", "algo": algo, "size": size, "hp": hp, "order": names, "ops": ops,
                              "init": self.random_init(algo, hp, rng) if j else {},
                              "build": "classmethod" if j % 4 == 1 else "create_population"})
            # every lr name mutated by every individual in the same round, twice (shared configuration / twin optimizers)
            names = lr_names(algo) + ["batch_size"]
            for li, ln in enumerate(lr_names(algo)):
                bs = len(names) - 1
                ops = [["round", [[li, 0.25], [li, 0.75]]], ["round", [[li, 0.75], [bs, 0.25]]], ["round", [[li, 0.25], [li, 0.25]]]]
                ops = ops + [["round_keep_elite", [[li, 0.75]]]]      # mutate_elite=False: member 0 must not move
                if algo in LEARN_ALGOS:   # ... and the optimizers that learn() then steps run with the mutated rate
                    ops = ops[:1] + [["learn", 0, 11], ["learn", 1, 12]] + ops[1:] + [["other", 0, "arch", 5], ["learn", 0, 13], ["learn", 1, 14]]
                cases.append({"kind": "pop", "algo": algo, "size": 2, "hp": {n: default_par(n) for n in names},
                              "order": names, "ops": ops, "init": {}})
            # checkpoints: both members mutate the same hyperparameter differently, member 0 is saved and restored in
            # place over member 1 (and later as a new member 0), then the hyperparameter is mutated again: the base must
            # be the RESTORED value (the registry with its cached values travels with the checkpoint)
            names = lr_names(algo) + ["batch_size"]
            for hi in (0, len(names) - 1):
                ops = [["one", 0, hi, 0.75], ["one", 1, hi, 0.25], ["loadinto", 0, 1], ["round", [[hi, 0.75], [hi, 0.25]]],
                       ["loadinto", 1, 0], ["clone", 0, 1], ["other", 1, "param", 7], ["round", [[hi, 0.25], [hi, 0.25]]],
                       ["one", 1, hi, 0.25], ["loadnew", 1, 0], ["round", [[hi, 0.25], [len(names) - 1 - hi, 0.75]]],
                       ["clone", 0, 1], ["loadinto", 1, 0], ["round", [[hi, 0.75], [hi, 0.25]]]]
                cases.append({"kind": "pop", "algo": algo, "size": 2, "hp": {n: default_par(n) for n in names},
                              "order": names, "ops": ops, "init": {}})
            # several learning rates with EQUAL values (distinct float objects, or one object used twice), and
            # batch_size == learn_step: every optimizer must still follow the rate its network is trained with
            if algo in LR2:
                names = ["lr_actor", "lr_critic", "batch_size", "learn_step"]
                for objects in ("distinct", "same"):
                    for build in ("create_population", "classmethod"):
                        ops = [["round", [[1, 0.75], [0, 0.75]]], ["round", [[0, 0.25], [1, 0.25]]], ["other", 0, "arch", 3],
                               ["round", [[2, 0.75], [3, 0.75]]], ["clone", 0, 1], ["round", [[1, 0.25], [0, 0.75]]]]
                        if algo in LEARN_ALGOS:
                            ops = ops[:2] + [["learn", 0, 21], ["learn", 1, 22]] + ops[2:]
                        cases.append({"kind": "pop", "algo": algo, "size": 2, "hp": {n: default_par(n) for n in names},
                                      "order": names, "ops": ops, "init": {"BATCH_SIZE": 8, "LEARN_STEP": 8},
                                      "equal_lrs": {"value": 0.001, "objects": objects}, "build": build})
            # float-typed hyperparameters whose constructor value is an INTEGER object (gamma=1, gae_lambda=1, ...; also
            # numpy / bool objects) and an int-typed one given as a float: after every mutation the attribute must have the
            # configured type and value, also the second time and after clone / load (types are rebuilt from init_types,
            # coercions the constructor rejects are dropped)
            floats = [n for n in EXTRA[algo] if n not in INT_HPS and n in TYPED_RANGE] + lr_names(algo)
            names = floats + ["batch_size"]
            kinds = ["int", "np_float", "bool", "np_int"]
            for kind in (["int", kinds[1 + ALGOS.index(algo) % 3]] if quick else kinds):
                hp = {n: {"min": TYPED_RANGE[n][0], "max": TYPED_RANGE[n][1], "shrink": 0.8, "grow": 1.2, "int": False} for n in floats}
                hp["batch_size"] = default_par("batch_size")
                init = {INIT_KEY[n]: float(TYPED_RANGE[n][2]) for n in floats}
                init["BATCH_SIZE"] = 16
                ops = []
                for j in range(len(floats)):
                    ops += [["round", [[j, 0.25], [j, 0.75]]], ["round", [[j, 0.75], [j, 0.25]]]]
                bsz = len(names) - 1
                ops += [["round", [[bsz, 0.25], [bsz, 0.75]]], ["clone", 0, 1], ["round", [[0, 0.25], [0, 0.75]]],
                        ["loadinto", 1, 0], ["round_keep_elite", [[0, 0.25]]], ["round", [[0, 0.75], [bsz, 0.25]]]]
                cases.append({"kind": "pop", "algo": algo, "size": 2, "hp": hp, "order": names, "ops": ops, "init": init,
                              "init_types": dict({INIT_KEY[n]: kind for n in floats}, BATCH_SIZE="float"),
                              "build": "classmethod" if kind == "np_float" else "create_population"})
            # a hyperparameter whose CURRENT value is exactly 0 / 0.0 / -0.0 (range with min = 0), exactly min and exactly
            # max, AFTER an earlier mutation of the same hyperparameter (the cached value is non-empty and different): the
            # value is assigned from outside, or the configuration comes from a mutated donor.  0 * factor = 0: it stays 0.
            z = [n for n in EXTRA[algo] if n not in INT_HPS][0]
            names = [z, "batch_size"] + lr_names(algo)[:1]
            hp = {n: default_par(n) for n in names}
            hp[z] = {"min": 0, "max": 1.0, "shrink": 0.8, "grow": 1.2, "int": False}
            hp["batch_size"] = {"min": 0, "max": 64, "shrink": 0.8, "grow": 1.2, "int": True}
            ops = [["round", [[0, 0.75], [0, 0.25]]],
                   ["set", 0, z, 0.0], ["set", 1, z, 0], ["round", [[0, 0.25], [0, 0.75]]], ["round", [[0, 0.75], [0, 0.25]]],
                   ["set", 0, z, -0.0], ["set", 1, z, 1.0], ["round", [[0, 0.75], [0, 0.75]]],
                   ["set", 0, z, 0.5], ["round", [[0, 0.25], [1, 0.25]]], ["set", 0, z, 0.0], ["clone", 0, 1],
                   ["round_keep_elite", [[0, 0.75]]], ["loadinto", 1, 0], ["one", 0, 0, 0.25]]
            zero_ok = algo not in ("NeuralUCB", "NeuralTS")     # the bandits' constructors (hence clone) assert gamma, reg > 0
            if not zero_ok:
                ops = [o for o in ops if o[0] != "clone"]
            cases.append({"kind": "pop", "algo": algo, "size": 2, "hp": hp, "order": names, "ops": ops, "init": {INIT_KEY[z]: 0.5}})
            if zero_ok:
                cases.append({"kind": "pop", "algo": algo, "size": 2, "hp": hp, "order": names, "init": {INIT_KEY[z]: 0.0},
                              "donor": {"draws": [[0, 0.75], [0, 0.75]], "init": {INIT_KEY[z]: 0.5}},
                              "ops": [["round", [[0, 0.25], [0, 0.75]]], ["round", [[0, 0.75], [1, 0.25]]]]})
            # one RLParameter object configured under two names; and a configuration object taken from an agent that was
            # already mutated (its cached values must not become the base of the new individuals' mutations)
            if algo in LR2:
                names = ["lr_actor", "lr_critic", "batch_size", "learn_step"]
                hp = {n: default_par(n) for n in names}
                hp["learn_step"] = dict(hp["batch_size"])
                cases.append({"kind": "pop", "algo": algo, "size": 2, "hp": hp, "order": names, "init": {},
                              "alias": [["lr_actor", "lr_critic"], ["batch_size", "learn_step"]],
                              "ops": [["round", [[1, 0.75], [0, 0.25]]], ["round", [[0, 0.75], [1, 0.25]]],
                                      ["round", [[2, 0.75], [3, 0.25]]], ["round", [[3, 0.75], [2, 0.25]]]]})
            names = lr_names(algo) + ["batch_size"]
            cases.append({"kind": "pop", "algo": algo, "size": 2, "hp": {n: default_par(n) for n in names}, "order": names,
                          "init": {}, "donor": {"draws": [[0, 0.75], [len(names) - 1, 0.75], [0, 0.75]], "init": {}},
                          "ops": [["round", [[0, 0.25], [len(names) - 1, 0.25]]], ["round", [[len(names) - 1, 0.75], [0, 0.75]]]]})
        # no configuration at all: the label is "None" and nothing changes
        for algo in (["DQN", "TD3", "IPPO"] if quick else ALGOS):
            cases.append({"kind": "pop", "algo": algo, "size": 2, "hp": {}, "order": [], "ops": [["round", []], ["round", []]], "init": {}})
        return cases

    @staticmethod
    def pick_index(names, algo, rng):
        # learning rates are where the optimizers come in: pick them more often
        lrs = [i for i, n in enumerate(names) if n.startswith("lr")]
        if lrs and rng.random() < 0.45:
            return rng.choice(lrs)
        return rng.randrange(len(names))

    @staticmethod
    def pick_u(rng):
        return rng.choice(U_GRID) if rng.random() < 0.3 else f32(rng.random())

    @staticmethod
    def random_init(algo, hp, rng):
        """initial values inside the configured range (the quantifier of the property)"""
        key = INIT_KEY
        init = {}
        for n, p in hp.items():
            if n not in key:
                continue
            c = rng.random()
            if p["int"]:
                lo, hi = int(math.ceil(p["min"])), int(p["max"])
                v = lo if c < 0.25 else hi if c < 0.5 else rng.randint(lo, hi)
            else:
                v = p["min"] if c < 0.2 else p["max"] if c < 0.4 else p["min"] + (p["max"] - p["min"]) * rng.random()
            init[key[n]] = v
        return init

    # ---------- implementation
    def run_impl(self, case):
        if case["kind"] == "value":
            return self.run_value(case)
        if case["kind"] == "seq":
            return self.run_seq(case)
        if case["kind"] == "init":
            return self.run_init(case)
        return self.run_pop(case)

    def run_init(self, case):
        plain = self.build_pop({"algo": case["algo"], "size": 1, "hp": {}, "order": []})[0]
        attrs = [n for n in case["cfg"] if hasattr(plain, n)]
        hp = {n: default_par(n) for n in case["cfg"]}
        try:
            self.build_pop({"algo": case["algo"], "size": 1, "hp": hp, "order": case["cfg"]})
            raised = None
        except AttributeError as e:
            raised = str(e)[:200]
        return {"attrs": attrs, "raised": raised}

    @staticmethod
    def make_param(par):
        from agilerl.algorithms.core.registry import RLParameter
        return RLParameter(min=par["min"], max=par["max"], shrink_factor=par["shrink"], grow_factor=par["grow"],
                           dtype=int if par["int"] else float)

    def run_value(self, case):
        p = self.make_param(case["par"])
        rs = []
        for v, u in case["pts"]:
            p.value = v
            with Scripted(rands=[u]) as s:
                r = p.mutate()
            s.assert_consumed()
            rs.append([r, type(r).__name__, p.value])
        return {"rs": rs}

    def run_seq(self, case):
        p = self.make_param(case["par"])
        v = case["v0"]
        rs = []
        for u in case["us"]:
            p.value = v        # the protocol of rl_hyperparam_mutation: the base is handed in before every call
            with Scripted(rands=[u]) as s:
                r = v = p.mutate()
            s.assert_consumed()
            rs.append([r, type(r).__name__, p.value])
        return {"rs": rs}

    # -- populations
    def build_pop(self, case):
        """population for the case; constructor values are given the requested Python types where the constructor
        accepts them (a rejected coercion — the constructors assert on some types — is dropped and the value stays float/int)"""
        if not case.get("init_types"):
            return self._build_pop(case)
        try:
            return self._build_pop(case)
        except (AssertionError, TypeError, ValueError):
            rejected = []
            for k in case["init_types"]:
                try:
                    self._build_pop(dict(case, size=1, init_types={k: case["init_types"][k]}))
                except (AssertionError, TypeError, ValueError):
                    rejected.append(k)
            return self._build_pop(case, _skip=tuple(rejected))

    def _build_pop(self, case, _skip=()):
        import numpy as np
        from gymnasium import spaces
        from agilerl.algorithms.core.registry import HyperparameterConfig
        from agilerl.utils.utils import create_population
        algo = case["algo"]
        obs = spaces.Box(-1, 1, (4,), dtype=np.float32)
        dact = spaces.Discrete(3)
        cact = spaces.Box(-1, 1, (2,), dtype=np.float32)
        net = {"encoder_config": {"hidden_size": [8]}}
        if algo == "Rainbow DQN":
            net = {"encoder_config": {"hidden_size": [16]}}
        INIT = {"AGENT_IDS": ["agent_0", "agent_1"], "BATCH_SIZE": 16, "LR": 1e-3, "LEARN_STEP": 8, "GAMMA": 0.99,
                "GAE_LAMBDA": 0.95, "ACTION_STD_INIT": 0.6, "CLIP_COEF": 0.2, "ENT_COEF": 0.01, "VF_COEF": 0.5,
                "MAX_GRAD_NORM": 0.5, "TARGET_KL": None, "UPDATE_EPOCHS": 1, "SHARE_ENCODERS": bool(case.get("share", True))}
        INIT.update(case.get("init", {}))
        # object identity is not part of a case (JSON): every number handed to the constructor is a fresh object, so two
        # equal values are two objects unless the case asks for one object explicitly (equal_lrs / objects == "same")
        INIT = {k: (float(repr(v)) if isinstance(v, float) else v) for k, v in INIT.items()}
        # Python TYPE of constructor values is not part of JSON either: init_types asks for int / numpy / bool objects
        coerce = {"int": int, "float": float, "bool": bool, "np_int": np.int64, "np_float": np.float64}
        for k, t in (case.get("init_types") or {}).items():
            if k in INIT and k not in (_skip or ()):
                INIT[k] = coerce[t](INIT[k])
        if case.get("equal_lrs") and algo in LR2:
            # the two learning rates have the SAME value: as distinct float objects (parsed from a file) or as one
            # object (one literal / one variable used twice) — object identity is lost in JSON, so it is rebuilt here
            v = float(repr(float(case["equal_lrs"]["value"])))
            INIT["LR_ACTOR"] = v
            INIT["LR_CRITIC"] = v if case["equal_lrs"]["objects"] == "same" else float(repr(v))
            assert (INIT["LR_ACTOR"] is INIT["LR_CRITIC"]) == (case["equal_lrs"]["objects"] == "same")
        if algo in ("DQN", "Rainbow DQN", "CQN", "PPO", "NeuralUCB", "NeuralTS"):
            o, a = obs, dact
        elif algo in ("DDPG", "TD3"):
            o, a = obs, cact
        elif algo == "IPPO":
            o, a = [obs, obs], [dact, dact]
        else:
            o, a = [obs, obs], [cact, cact]
        # ONE configuration object for the whole population, as a user would write it
        params = {n: self.make_param(case["hp"][n]) for n in case["order"]}
        for group in case.get("alias") or []:        # ONE RLParameter object configured under several names
            for n in group[1:]:
                params[n] = params[group[0]]
        hp = HyperparameterConfig(**params) if case["order"] else None
        if case.get("donor") and hp is not None:
            # the configuration is taken from an agent that has already been mutated: a donor is built with it, mutated with
            # the scripted draws, and ITS registry's configuration object is what the population is constructed with
            from agilerl.hpo.mutation import Mutations
            dcase = {k: v for k, v in case.items() if k not in ("donor", "alias")}
            donor = self._build_pop(dict(dcase, size=1, init=case["donor"].get("init", {}), init_types=None), _skip=())
            with Scripted(perms=[d[0] for d in case["donor"]["draws"]], rands=[d[1] for d in case["donor"]["draws"]],
                          nconfig=len(case["order"])) as sc:
                for _ in case["donor"]["draws"]:
                    donor = Mutations(no_mutation=0, architecture=0, new_layer_prob=0, parameters=0, activation=0, rl_hp=1,
                                      rand_seed=0).mutation(donor)
            sc.assert_consumed()
            hp = donor[0].registry.hp_config
        if case.get("build") == "classmethod":
            import importlib
            modname, clsname = {"DQN": ("dqn", "DQN"), "Rainbow DQN": ("dqn_rainbow", "RainbowDQN"), "CQN": ("cqn", "CQN"),
                                "DDPG": ("ddpg", "DDPG"), "TD3": ("td3", "TD3"), "PPO": ("ppo", "PPO"),
                                "NeuralUCB": ("neural_ucb_bandit", "NeuralUCB"), "NeuralTS": ("neural_ts_bandit", "NeuralTS"),
                                "MADDPG": ("maddpg", "MADDPG"), "MATD3": ("matd3", "MATD3"), "IPPO": ("ippo", "IPPO")}[algo]
            cls = getattr(importlib.import_module("agilerl.algorithms." + modname), clsname)
            kw = dict(hp_config=hp, net_config=net, batch_size=INIT["BATCH_SIZE"], learn_step=INIT["LEARN_STEP"])
            if algo in LR2:
                kw.update(lr_actor=INIT.get("LR_ACTOR", 1e-4), lr_critic=INIT.get("LR_CRITIC", 1e-3))
            else:
                kw["lr"] = INIT["LR"]
            if algo in ("MADDPG", "MATD3", "IPPO"):
                kw["agent_ids"] = INIT["AGENT_IDS"]
            import inspect
            accepted = inspect.signature(cls.__init__).parameters
            for k, v in (case.get("init") or {}).items():     # the remaining constructor values of the case
                if k.lower() in accepted and k.lower() not in kw:
                    kw[k.lower()] = INIT[k]
            return cls.population(case["size"], o, a, **kw)
        return create_population(algo, o, a, net, INIT, hp_config=hp, population_size=case["size"])

    @staticmethod
    def observe(agent, names):
        vals = {}
        for n in names:
            v = getattr(agent, n)
            if hasattr(v, "item") and not isinstance(v, (int, float)):
                v = v.item()
            vals[n] = [v, type(getattr(agent, n)).__name__]
        opts = []
        for cfg in agent.registry.optimizers:
            w = getattr(agent, cfg.name)
            o = w.optimizer
            groups = []
            for oo in (o if isinstance(o, list) else [o]):
                groups += [g["lr"] for g in oo.param_groups]
            opts.append({"name": cfg.name, "cfg_lr": cfg.lr, "lr_name": w.lr_name, "wlr": w.lr, "groups": groups})
        return {"vals": vals, "mut": getattr(agent, "mut", None), "opts": opts}

    def run_pop(self, case):
        from agilerl.hpo.mutation import Mutations
        pop = self.build_pop(case)
        muts = Mutations(no_mutation=0, architecture=0, new_layer_prob=0, parameters=0, activation=0, rl_hp=1, rand_seed=0)
        names = sorted(set(case["order"]) | set(lr_names(case["algo"])) | {c.lr for a in pop for c in a.registry.optimizers}
                       | {getattr(a, c.name).lr_name for a in pop for c in a.registry.optimizers})
        ncfg = len(case["order"])
        obs0 = [self.observe(a, names) for a in pop]
        trace, stepped = [], []
        for op in case["ops"]:
            stepped.append([])
            if op[0] == "set":       # assignment from outside the library (user code / a schedule)
                setattr(pop[op[1]], op[2], op[3])
            elif op[0] == "round":
                with Scripted(perms=[d[0] for d in op[1]], rands=[d[1] for d in op[1]], nconfig=ncfg) as s:
                    pop = list(muts.mutation(pop))
                s.assert_consumed()
            elif op[0] == "round_keep_elite":
                with Scripted(perms=[d[0] for d in op[1]], rands=[d[1] for d in op[1]], nconfig=ncfg) as s:
                    pop = list(Mutations(no_mutation=0, architecture=0, new_layer_prob=0, parameters=0, activation=0, rl_hp=1,
                                         mutate_elite=False, rand_seed=0).mutation(pop))
                s.assert_consumed()
            elif op[0] == "one":
                with Scripted(perms=[op[2]], rands=[op[3]], nconfig=ncfg) as s:
                    pop[op[1]] = muts.mutation([pop[op[1]]])[0]
                s.assert_consumed()
            elif op[0] in ("loadinto", "loadnew"):
                import os, tempfile
                fd, path = tempfile.mkstemp(suffix=".pt", dir=str(vlib.BUILD))
                os.close(fd)
                try:
                    pop[op[1]].save_checkpoint(path)
                    if op[0] == "loadinto":
                        pop[op[2]].load_checkpoint(path)
                    else:
                        pop[op[2]] = type(pop[op[1]]).load(path)
                finally:
                    os.remove(path)
            elif op[0] == "learn":
                stepped[-1] = self.learn_and_record(case["algo"], pop[op[1]], op[1], op[2])
            elif op[0] == "other":
                kw = dict(no_mutation=0, architecture=0, new_layer_prob=0.5, parameters=0, activation=0, rl_hp=0, rand_seed=op[3])
                kw[{"arch": "architecture", "param": "parameters", "act": "activation"}[op[2]]] = 1
                pop[op[1]] = Mutations(**kw).mutation([pop[op[1]]])[0]
            else:
                pop[op[2]] = pop[op[1]].clone(index=op[2])
            trace.append([self.observe(a, names) for a in pop])
        return {"names": names, "obs0": obs0, "trace": trace, "stepped": stepped}

    @staticmethod
    def learn_and_record(algo, agent, i, seed):
        """two learn() calls on a seeded batch; every torch optimizer step is recorded with the lr of its groups"""
        import torch
        from tensordict import TensorDict
        from torch.optim.optimizer import register_optimizer_step_pre_hook
        reg = {}
        for j, cfg in enumerate(agent.registry.optimizers):
            o = getattr(agent, cfg.name).optimizer
            for oo in (o if isinstance(o, list) else [o]):
                reg[id(oo)] = j
        rec = []

        def hook(opt, args, kwargs):
            rec.append([i, reg.get(id(opt), 4999), [g["lr"] for g in opt.param_groups]])
        g = torch.Generator().manual_seed(seed)
        h = register_optimizer_step_pre_hook(hook)
        try:
            for _ in range(2):
                B = int(agent.batch_size)
                if algo in ("MADDPG", "MATD3"):
                    ids = agent.agent_ids
                    td = ({a: torch.randn(B, 4, generator=g) for a in ids}, {a: torch.rand(B, 2, generator=g) * 2 - 1 for a in ids},
                          {a: torch.randn(B, 1, generator=g) for a in ids}, {a: torch.randn(B, 4, generator=g) for a in ids},
                          {a: torch.zeros(B, 1) for a in ids})
                elif algo == "PPO":
                    T = 2 * B
                    td = (torch.randn(T, 4, generator=g), torch.randint(0, 3, (T,), generator=g), -torch.rand(T, generator=g),
                          torch.randn(T, generator=g), torch.zeros(T), torch.randn(T, generator=g), torch.randn(4, generator=g), torch.zeros(1))
                elif algo == "IPPO":
                    T, ids = 2 * B, agent.agent_ids
                    f = lambda mk: {a: mk() for a in ids}
                    td = (f(lambda: torch.randn(T, 4, generator=g)), f(lambda: torch.randint(0, 3, (T,), generator=g)),
                          f(lambda: -torch.rand(T, generator=g)), f(lambda: torch.randn(T, generator=g)), f(lambda: torch.zeros(T)),
                          f(lambda: torch.randn(T, generator=g)), f(lambda: torch.randn(4, generator=g)), f(lambda: torch.zeros(1)))
                elif algo in ("NeuralUCB", "NeuralTS"):
                    td = TensorDict({"obs": torch.randn(B, 4, generator=g), "reward": torch.randn(B, 1, generator=g)}, batch_size=[B])
                else:
                    act = (torch.randint(0, 3, (B, 1), generator=g) if algo in ("DQN", "Rainbow DQN", "CQN")
                           else torch.rand(B, 2, generator=g) * 2 - 1)
                    td = TensorDict({"obs": torch.randn(B, 4, generator=g), "action": act, "reward": torch.randn(B, 1, generator=g),
                                     "next_obs": torch.randn(B, 4, generator=g), "done": torch.zeros(B, 1)}, batch_size=[B])
                agent.learn(td)
        finally:
            h.remove()
        return rec

    # ---------- model term
    def coq_term(self, case, obs):
        if case["kind"] in ("value", "seq"):
            par = case["par"]
            rs = [r[0] for r in obs["rs"]]
            if case["kind"] == "seq":
                t = f"check_value_f {coq_param(par, cf)} {cf(case['v0'])} [{'; '.join(cf(u) for u in case['us'])}] [{'; '.join(cf(r) for r in rs)}]"
                if self.exact_seq(par, case["v0"], case["us"], rs):
                    t += (f" && check_value_q {coq_param(par, coq_Q)} {coq_Q(case['v0'])} [{'; '.join(coq_Q(u) for u in case['us'])}] "
                          f"[{'; '.join(coq_Q(r) for r in rs)}]")
                return t
            terms = []
            for (v, u), r in zip(case["pts"], rs):
                terms.append(f"({cf(v)}, {cf(u)}, {cf(r)})")
            t = f"check_points_f {coq_param(par, cf)} [{'; '.join(terms)}]"
            ex = [((v, u), r) for (v, u), r in zip(case["pts"], rs) if self.exact_point(par, v, u)]
            if ex:
                t += f" && check_points_q {coq_param(par, coq_Q)} [{'; '.join(f'({coq_Q(v)}, {coq_Q(u)}, {coq_Q(r)})' for (v, u), r in ex)}]"
            return t
        if case["kind"] == "init":
            ids = {n: i for i, n in enumerate(sorted(set(case["cfg"])))}
            return (f"check_init [{'; '.join(str(ids[n]) for n in obs['attrs'])}] [{'; '.join(str(ids[n]) for n in case['cfg'])}] "
                    f"{coq_bool(obs['raised'] is not None)}")
        # population
        names = obs["names"]
        nid = {n: i for i, n in enumerate(names)}

        def agent_obs(o):
            vals = "[" + "; ".join(f"({nid[n]}, {cf(o['vals'][n][0])})" for n in names) + "]"
            mut = "None" if o["mut"] in (None, "None") else (f"(Some {nid[o['mut']]})" if o["mut"] in nid else "(Some 4999)")
            opts = "[" + "; ".join(f"({cf(x['wlr'])}, [{'; '.join(cf(g) for g in x['groups'])}])" for x in o["opts"]) + "]"
            tys = "[" + "; ".join(f"({nid[n]}, {coq_bool(o['vals'][n][1] == 'int')})" for n in names) + "]"
            return f"({vals}, {mut}, {opts}, {tys})"

        def agent0(o):
            vals = "[" + "; ".join(f"({nid[n]}, {cf(o['vals'][n][0])})" for n in names) + "]"
            hps = "[" + "; ".join(f"Build_hpent {nid[n]} {coq_param(case['hp'][n], cf)} None" for n in case["order"]) + "]"
            def en(x, k):   # the registry of the MODEL names the lr the source builds the optimizer with
                e = expected_lr_name(case["algo"], x["name"])
                return nid[e] if e in nid else nid[x[k]]
            opts = "[" + "; ".join(f"Build_optim {en(x, 'cfg_lr')} {en(x, 'lr_name')} {cf(x['wlr'])} [{'; '.join(cf(g) for g in x['groups'])}]"
                                   for x in o["opts"]) + "]"
            return f"Build_agent {vals} {hps} {opts} None"

        ops = []
        for op in case["ops"]:
            if op[0] == "round":
                ops.append("Round [" + "; ".join(f"({k}, {cf(u)})" for k, u in op[1]) + "]")
            elif op[0] == "round_keep_elite":
                ops.append("RoundKeepElite [" + "; ".join(f"({k}, {cf(u)})" for k, u in op[1]) + "]")
            elif op[0] == "one":
                ops.append(f"MutOne {op[1]} {op[2]} {cf(op[3])}")
            elif op[0] == "loadinto":
                ops.append(f"LoadInto {op[1]} {op[2]}")
            elif op[0] == "loadnew":
                ops.append(f"LoadNew {op[1]} {op[2]}")
            elif op[0] == "learn":
                ops.append(f"Learn {op[1]}")
            elif op[0] == "other":
                ops.append(f"OtherMut {op[1]}")
            elif op[0] == "set":
                ops.append(f"KSet {op[1]} {nid[op[2]]} {cf(op[3])}")
            else:
                ops.append(f"Clone {op[1]} {op[2]}")
        ops = [o if o.startswith("KSet ") else f"K ({o})" for o in ops]
        pop0 = "[" + "; ".join(agent0(o) for o in obs["obs0"]) + "]"
        # the label before the first mutation is whatever the constructor left; it is not compared
        ob0 = "[" + "; ".join(agent_obs(dict(o, mut=None)) for o in obs["obs0"]) + "]"
        steps = []
        unknown = set()   # individuals whose label was left by an architecture / parameter / activation mutation (not modelled)
        for op, step, st in zip(case["ops"], obs["trace"], obs.get("stepped") or [[] for _ in case["ops"]]):
            if op[0] in ("other", "set"):
                unknown.add(op[1])
            elif op[0] == "round":
                unknown -= set(range(len(op[1]))) if case["order"] else set(range(len(step)))
            elif op[0] == "one":
                unknown.discard(op[1])
            elif op[0] == "round_keep_elite":
                unknown -= set(range(len(step)))
            elif op[0] in ("clone", "loadinto", "loadnew"):
                (unknown.add if op[1] in unknown else unknown.discard)(op[2])
            stp = "[" + "; ".join(f"({a}, {j}, [{'; '.join(cf(x) for x in lrs)}])" for a, j, lrs in st) + "]"
            steps.append("([" + "; ".join(agent_obs(dict(o, mut=None) if i in unknown else o) for i, o in enumerate(step)) + "], " + stp + ")")
        tr = "[" + "; ".join(steps) + "]"
        return f"check_pop {pop0} [{'; '.join(ops)}] {ob0} {tr}"

    @staticmethod
    def exact_point(par, v, u):
        """is every float operation of mutate() on this point exact (so that the rational model must agree)?"""
        try:
            f = par["shrink"] if u < 0.5 else par["grow"]
            return Fraction(v) * Fraction(f) == Fraction(float(v) * float(f)) and abs(v) < 2 ** 40
        except (OverflowError, ValueError):
            return False

    def exact_seq(self, par, v0, us, rs):
        v = v0
        for u, r in zip(us, rs):
            if not self.exact_point(par, v, u):
                return False
            v = r
        return True

    # ---------- oracle: the property stated directly on the implementation's behaviour
    def oracle(self, case, obs):
        if case["kind"] in ("value", "seq"):
            return self.oracle_value(case, obs)
        if case["kind"] == "init":
            missing = [n for n in case["cfg"] if n not in obs["attrs"]]
            if bool(missing) != (obs["raised"] is not None):
                return [Violation("registry-init", f"init:{'accepted-unknown-hp' if missing else 'rejected-valid-config'}:{case['algo'].replace(' ', '')}",
                                  f"configured {case['cfg']}, not attributes of the agent: {missing}; constructor "
                                  f"{'raised ' + obs['raised'] if obs['raised'] else 'accepted the configuration'}")]
            return []
        return self.oracle_pop(case, obs)

    def oracle_value(self, case, obs):
        par = case["par"]
        dt = "int" if par["int"] else "float"
        out = []
        bounds_ok = par["min"] <= par["max"] and (not par["int"] or (integral(par["min"]) and integral(par["max"])))
        prev = case.get("v0")
        inputs = case["pts"] if case["kind"] == "value" else [[None, u] for u in case["us"]]
        for i, ((v, u), (r, tname, cache)) in enumerate(zip(inputs, obs["rs"])):
            own = v if case["kind"] == "value" else prev
            exp = clip_cast(par, own, u)
            if tname != dt:
                out.append(Violation("type", f"value:type:{dt}", f"point {i}: mutate() returned {r!r} of type {tname}, configured dtype {dt}"))
            elif r != exp:
                out.append(Violation("scaled-clip", f"value:scaled-clip:{dt}",
                                     f"point {i}: value {own!r}, draw {u!r} ({'shrink' if u < 0.5 else 'grow'}), {par}: mutate() returned {r!r}, "
                                     f"expected {dt}(clip(value*factor)) = {exp!r}"))
            elif bounds_ok and not (par["min"] <= r <= par["max"]):
                out.append(Violation("in-range", f"value:in-range:{dt}", f"point {i}: result {r!r} outside [{par['min']}, {par['max']}]"))
            # (RLParam.value after the call is bookkeeping since fix 4290930: the caller hands the base in; not a clause)
            if out:
                # replay only what is needed
                if case["kind"] == "value":
                    out[0].case = dict(case, pts=[case["pts"][i]])
                    out[0].obs = {"rs": [obs["rs"][i]]}
                else:
                    out[0].case = dict(case, us=case["us"][:i + 1])
                    out[0].obs = {"rs": obs["rs"][:i + 1]}
                return out[:1]
            prev = r
        return out

    def oracle_pop(self, case, obs):
        algo = case["algo"].replace(" ", "")
        names, order, hp = obs["names"], case["order"], case["hp"]
        prev = obs["obs0"]

        def coherent(i, o, where):
            for x in o["opts"]:
                # the attribute the algorithm's source builds this optimizer with — NOT the registry's own inference
                ln = expected_lr_name(case["algo"], x["name"]) or x["lr_name"]
                want = o["vals"][ln][0]
                bad = [g for g in x["groups"] if g != want]
                if bad:
                    mode = "same-lr-object:" if (case.get("equal_lrs") or {}).get("objects") == "same" else ""
                    return Violation("lr-effective", f"pop:lr-not-effective:{mode}{algo}:{x['name']}",
                                     f"{where}: individual {i}: attribute {ln} = {want!r} but {x['name']} (registered under "
                                     f"{x['cfg_lr']!r}/{x['lr_name']!r}) has param-group lrs {x['groups']}")
            return None

        def done(v, t):
            v.case = dict(case, ops=case["ops"][:t + 1]) if t is not None else dict(case, ops=[])
            v.obs = None
            return [v]

        for i, o in enumerate(prev):
            v = coherent(i, o, "initial population")
            if v:
                return done(v, None)
        for t, (op, after) in enumerate(zip(case["ops"], obs["trace"])):
            where = f"op {t} {op[0]}"
            for a_i, j, lrs in (obs.get("stepped") or [[] for _ in case["ops"]])[t]:
                opts = after[a_i]["opts"]
                if j >= len(opts):
                    return done(Violation("steps-registered-optimizer", f"pop:stepped-unregistered-optimizer:{algo}",
                                          f"{where}: individual {a_i}: learn() stepped an optimizer that is not (any longer) the one registered on the agent, lrs {lrs}"), t)
                want = after[a_i]["vals"][opts[j]["lr_name"]][0]
                if any(x != want for x in lrs):
                    return done(Violation("lr-effective", f"pop:stepped-with-other-lr:{algo}:{opts[j]['name']}",
                                          f"{where}: individual {a_i}: learn() stepped {opts[j]['name']} with lrs {lrs}, attribute {opts[j]['lr_name']} = {want!r}"), t)
            if op[0] == "learn" and not (obs.get("stepped") or [[]])[t]:
                return done(Violation("harness", f"pop:learn-did-not-step:{algo}", f"{where}: learn() performed no optimizer step"), t)
            if len(after) != len(prev):
                return done(Violation("population", f"pop:size:{algo}", f"{where}: population has {len(after)} members, had {len(prev)}"), t)
            touched, src = {}, {}
            if op[0] == "round":
                touched = {i: d for i, d in enumerate(op[1])}
            elif op[0] == "one":
                touched = {op[1]: [op[2], op[3]]}
            elif op[0] == "round_keep_elite":
                touched = {i + 1: d for i, d in enumerate(op[1])}
                if after and after[0]["mut"] != "None":
                    return done(Violation("label", f"pop:elite-label:{algo}", f"{where}: mutate_elite=False but member 0 has label {after[0]['mut']!r}"), t)
            elif op[0] in ("clone", "loadinto", "loadnew"):
                src = {op[2]: op[1]}
            elif op[0] == "set":      # our own assignment: becomes the individual's current value
                prev = [dict(b, vals=dict(b["vals"], **{op[2]: [op[3], type(op[3]).__name__]})) if i == op[1] else b
                        for i, b in enumerate(prev)]
            for i, (b, a) in enumerate(zip(prev, after)):
                ref = prev[src[i]] if i in src else b
                if i in touched or (op[0] == "round" and not order):
                    if not order:
                        if a["mut"] != "None" or a["vals"] != ref["vals"]:
                            return done(Violation("no-config", f"pop:no-config:{algo}", f"{where}: individual {i} has no configuration but label {a['mut']!r} / values changed"), t)
                        continue
                    k, u = touched[i]
                    n = order[k]
                    own = ref["vals"][n][0]
                    exp = clip_cast(hp[n], own, u)
                    got, tname = a["vals"][n]
                    dt = "int" if hp[n]["int"] else "float"
                    if a["mut"] != n:
                        return done(Violation("label", f"pop:label:{algo}", f"{where}: individual {i}: sampled {n!r} but agent.mut = {a['mut']!r}"), t)
                    if tname != dt:
                        return done(Violation("type", f"pop:type:{algo}:{n}", f"{where}: individual {i}: {n} = {got!r} has type {tname}, configured {dt}"), t)
                    if got != exp:
                        return done(Violation("own-value-scaled-clip", f"pop:new-value:{algo}:{n}",
                                              f"{where}: individual {i}: {n} was {own!r}, draw {u!r} ({'shrink' if u < 0.5 else 'grow'}), {hp[n]}: "
                                              f"now {got!r}, expected {dt}(clip(own value * factor)) = {exp!r}"), t)
                    p = hp[n]
                    if (not p["int"] or (integral(p["min"]) and integral(p["max"]))) and not (p["min"] <= got <= p["max"]):
                        return done(Violation("in-range", f"pop:in-range:{algo}:{n}", f"{where}: individual {i}: {n} = {got!r} outside [{p['min']}, {p['max']}]"), t)
                    others = [m for m in names if m != n and a["vals"][m] != ref["vals"][m]]
                    if others:
                        return done(Violation("exactly-one", f"pop:other-hp-changed:{algo}", f"{where}: individual {i}: mutated {n!r} but {others} changed too"), t)
                    for xb, xa in zip(ref["opts"], a["opts"]):
                        if (expected_lr_name(case["algo"], xa["name"]) or xa["lr_name"]) != n and xa["groups"] != xb["groups"]:
                            return done(Violation("exactly-one", f"pop:other-optimizer-changed:{algo}:{xa['name']}",
                                                  f"{where}: individual {i}: mutated {n!r} but {xa['name']} lr changed {xb['groups']} -> {xa['groups']}"), t)
                else:
                    if a["vals"] != ref["vals"] or [x["groups"] for x in a["opts"]] != [x["groups"] for x in ref["opts"]] \
                            or (i in src and a["mut"] != ref["mut"]):
                        what = (f"{op[0]} result differs from its source" if i in src else
                                f"{op[2]} mutation moved hyperparameters / learning rates" if (op[0] == "other" and i == op[1]) else
                                "individual that was not mutated changed")
                        return done(Violation("other-agents", f"pop:other-agent-changed:{algo}", f"{where}: individual {i}: {what}: {ref['vals']} -> {a['vals']}"), t)
                v = coherent(i, a, where)
                if v:
                    return done(v, t)
            prev = after
        return []

    # ---------- evidence
    def key(self, case):
        if case["kind"] == "value":
            c = dict(case, pts=[[v, u < 0.5] for v, u in case["pts"]])
        elif case["kind"] == "seq":
            c = dict(case, us=[u < 0.5 for u in case["us"]])
        elif case["kind"] == "init":
            c = case
        else:
            ops = []
            for op in case["ops"]:
                if op[0] == "round":
                    ops.append(["round", [[k, u < 0.5] for k, u in op[1]]])
                elif op[0] == "round_keep_elite":
                    ops.append(["round_keep_elite", [[k, u < 0.5] for k, u in op[1]]])
                elif op[0] == "one":
                    ops.append(["one", op[1], op[2], op[3] < 0.5])
                else:
                    ops.append(op)
            c = dict(case, ops=ops)
        return super().key(c)

    def branches(self, case, obs):
        """(dtype / hp name, branch) of every mutation of the case"""
        out = []
        if case["kind"] == "init":
            return out
        if case["kind"] == "value":
            for (v, u), r in zip(case["pts"], obs["rs"]):
                out.append(("int" if case["par"]["int"] else "float", branch(case["par"], v, u, r[0]), r[0] != v))
        elif case["kind"] == "seq":
            v = case["v0"]
            for u, r in zip(case["us"], obs["rs"]):
                out.append(("int" if case["par"]["int"] else "float", branch(case["par"], v, u, r[0]), r[0] != v))
                v = r[0]
        else:
            prev = obs["obs0"]
            for op, after in zip(case["ops"], obs["trace"]):
                ds = {}
                if op[0] == "round":
                    ds = {i: d for i, d in enumerate(op[1])}
                elif op[0] == "round_keep_elite":
                    ds = {i + 1: d for i, d in enumerate(op[1])}
                elif op[0] == "one":
                    ds = {op[1]: [op[2], op[3]]}
                for i, (k, u) in ds.items():
                    if not case["order"] or i >= len(prev):
                        continue
                    n = case["order"][k]
                    own, new = prev[i]["vals"][n][0], after[i]["vals"][n][0]
                    out.append((n, branch(case["hp"][n], own, u, new), new != own))
                prev = after
        return out

    def nontrivial(self, case, obs):
        if case["kind"] == "init":
            return obs["raised"] is not None
        return any(changed or b != "scaled" for _, b, changed in self.branches(case, obs))

    def classify(self, case, obs):
        labs = [f"kind={case['kind']}"]
        if case["kind"] == "init":
            return labs + [f"algo={case['algo']}", "init=" + ("rejected" if obs["raised"] else "accepted")]
        if case["kind"] == "pop":
            labs += [f"algo={case['algo']}", f"pop-size={case['size']}", f"n-ops={len(case['ops'])}", f"built-by={case.get('build', 'create_population')}"]
            labs += [f"op={op[0]}" for op in case["ops"]]
            for k, t in (case.get("init_types") or {}).items():
                tn = obs["obs0"][0]["vals"].get(k.lower(), [None, "?"])[1] if obs["obs0"] else "?"
                labs.append(f"init-type={k.lower()}:{t}->{tn}")
            if case.get("alias"):
                labs.append("one-RLParameter-under-several-names")
            if case.get("donor"):
                labs.append("config-from-mutated-agent")
            if case.get("equal_lrs"):
                labs.append(f"equal-lrs={case['equal_lrs']['objects']}-objects")
            if not case["order"]:
                labs.append("no-hp-config")
            if obs["obs0"]:
                lrn = [x["cfg_lr"] for x in obs["obs0"][0]["opts"]]
                if len(set(lrn)) < len(lrn):
                    labs.append("optimizers-sharing-an-lr-name")
        for who, b, changed in self.branches(case, obs):
            labs.append(f"branch={b}:{who if case['kind'] != 'pop' else ('int' if case['hp'][who]['int'] else 'float')}")
            if case["kind"] == "pop":
                labs.append(f"mutated={who}")
            if not changed:
                labs.append("value-unchanged")
        return labs

    def neighbours(self, case, rng):
        if case["kind"] == "pop":
            for t in range(1, len(case["ops"]) + 1):     # the case itself last: an oracle failure listed as known finding
                yield dict(case, ops=case["ops"][:t])    # must not surface as an unexplained model/implementation disagreement
        elif case["kind"] == "value":
            for pt in case["pts"][:50]:
                yield dict(case, pts=[pt])


if __name__ == "__main__":
    sys.exit(vlib.run_check(C06()))
