"""C16 mutation self-test: applies every selftest/mutants/C16-*.patch to a scratch worktree of /repo (under /tmp/C16)
and runs the check against it.  usage: /venv/bin/python harness/c16_selftest.py [-j N] [name-substring ...]"""
import glob, os, re, subprocess, sys
from concurrent.futures import ThreadPoolExecutor

VERIF = os.path.dirname(os.path.dirname(os.path.abspath(__file__)))


def run(patch, slot):
    wt = f"/tmp/C16/st_{slot}"
    subprocess.run(["git", "-C", "/repo", "worktree", "remove", "--force", wt], capture_output=True)
    subprocess.run(["git", "-C", "/repo", "worktree", "add", "--detach", wt, "HEAD"], capture_output=True, check=True)
    try:
        r = subprocess.run(["git", "-C", wt, "apply", patch], capture_output=True, text=True)
        if r.returncode != 0:
            return patch, "APPLY-FAILED", r.stderr.strip()
        env = dict(os.environ, VERIF_REPO=wt)
        p = subprocess.run([os.path.join(VERIF, "check"), "C16", "--tier", "quick", "--skip-proofs"], capture_output=True, text=True, env=env, cwd=VERIF)
        viol = [l for l in p.stdout.splitlines() if l.startswith("VIOLATION")]
        concrete = [l for l in viol if "no-failing-input-found" not in l]
        summ = [l for l in p.stdout.splitlines() if l.startswith("[C16]")]
        return patch, ("VIOLATION" if viol else "SILENT") + (" (concrete replay)" if concrete else ""), \
            f"exit={p.returncode} " + (summ[-1] if summ else p.stdout[-300:] + p.stderr[-300:]) + " | " + "; ".join(os.path.basename(l.split("replay=")[1]) for l in viol[:4])
    finally:
        subprocess.run(["git", "-C", "/repo", "worktree", "remove", "--force", wt], capture_output=True)


def main():
    args = sys.argv[1:]
    j = 3
    if args[:1] == ["-j"]:
        j = int(args[1]); args = args[2:]
    patches = sorted(glob.glob(os.path.join(VERIF, "selftest/mutants/C16-*.patch")))
    if args:
        patches = [p for p in patches if any(a in p for a in args)]
    os.makedirs("/tmp/C16", exist_ok=True)
    bad = 0
    slots = list(range(j))
    import queue
    q = queue.Queue()
    for s in slots:
        q.put(s)

    def job(p):
        s = q.get()
        try:
            return run(p, s)
        finally:
            q.put(s)
    with ThreadPoolExecutor(max_workers=j) as ex:
        for patch, verdict, info in ex.map(job, patches):
            exp = re.search(r"# expected: (\w+)", open(patch).readline()).group(1)
            ok = verdict.startswith(exp) and (exp == "SILENT" or "concrete" in verdict)
            bad += not ok
            print(f"{'ok  ' if ok else 'MISS'} {os.path.basename(patch):55s} expected={exp:9s} got={verdict:28s} {info}", flush=True)
    return 1 if bad else 0


if __name__ == "__main__":
    sys.exit(main())
