#!/bin/bash
# usage: tools/seed_reeval.sh <PID> <name under seeded/> "<what was strengthened>"
# optional 4th argument: the same edit rebased onto the current HEAD (kept as patch_rebased.diff) when a later fix commit made patch.diff inapplicable
# Re-runs the check against a stored seeded change that was missed at first and records both outcomes in meta.json.
pid="$1"; name="$2"; note="$3"; dst="/verif/seeded/$name"; tmp="/tmp/se/re-$name"; rm -rf "$tmp"; mkdir -p "$tmp"
cp "$dst/patch.diff" "$dst/demo.py" "$tmp/"; if [ -n "$4" ]; then cp "$4" "$tmp/patch.diff"; cp "$4" "$dst/patch_rebased.diff"; fi
/verif/tools/seed_eval.sh "$pid" "$tmp" "" quick > /dev/null 2>&1
cp "$tmp/eval.txt" "$dst/eval_after_strengthening.txt"
/venv/bin/python - "$pid" "$name" "$dst" "$note" <<'PY'
import json,sys
pid,name,dst,note=sys.argv[1:5]
m=json.load(open(dst+'/meta.json')); ev=open(dst+'/eval_after_strengthening.txt').read()
caught='VIOLATION property='+pid in ev
concrete=any(l.startswith('VIOLATION') and 'no-failing-input-found' not in l for l in ev.splitlines())
if 'first_outcome' not in m: m['first_outcome']=m['check_outcome']
m['check_outcome']={"caught":caught,"with_concrete_replay":concrete,"lines":[l for l in ev.splitlines() if l.startswith(('VIOLATION','KNOWN','[','head'))][:8]}
m['strengthening']=note
json.dump(m,open(dst+'/meta.json','w'),indent=1)
print(name,'caught' if caught else 'STILL-MISSED','concrete' if concrete else '', '' if 'demo patched exit: 1' in ev else 'DEMO?')
PY
rm -rf "$tmp"
