#!/bin/bash
# usage: tools/seed_store.sh <PID> <seed-dir> "<what it needs to manifest>"  — keeps a confirmed seeded change under /verif/seeded/<name>/
pid="$1"; sd="$2"; needs="$3"; name="$(basename "$sd")"; dst="/verif/seeded/$name"; mkdir -p "$dst"
cp "$sd/patch.diff" "$sd/demo.py" "$dst/"; [ -f "$sd/notes.md" ] && cp "$sd/notes.md" "$dst/"; cp "$sd/eval.txt" "$dst/"
/venv/bin/python - "$pid" "$name" "$dst" "$needs" <<'PY'
import json,sys,re
pid,name,dst,needs=sys.argv[1:5]
ev=open(dst+'/eval.txt').read()
caught = 'VIOLATION property='+pid in ev
concrete = any(l.startswith('VIOLATION') and 'no-failing-input-found' not in l for l in ev.splitlines())
json.dump({"id":name,"breaks_property":pid,"needs_to_manifest":needs,
 "confirmed":{"demo_clean_exit":re.search(r'demo clean exit: (\d+)',ev).group(1),"demo_patched_exit":re.search(r'demo patched exit: (\d+)',ev).group(1),
              "tests_clean":(re.search(r'tests clean: (.*)',ev) or [None,None])[1],"tests_patched":(re.search(r'tests patched: (.*)',ev) or [None,None])[1]},
 "what_was_run":"tools/seed_eval.sh "+pid+" <seed dir> <tests> (fresh worktree of /repo HEAD: demo on clean tree, apply patch.diff, demo again, existing tests both ways, then VERIF_REPO=<worktree> ./check "+pid+" --tier quick)",
 "check_outcome":{"caught":caught,"with_concrete_replay":concrete,"lines":[l for l in ev.splitlines() if l.startswith(('VIOLATION','KNOWN','['))]},
 "origin":"independent sub-agent given only the property text and a scratch worktree"},open(dst+'/meta.json','w'),indent=1)
print(name,'caught' if caught else 'MISSED','concrete' if concrete else '')
PY
