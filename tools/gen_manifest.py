#!/usr/bin/env python3
"""Regenerates MANIFEST.json from tools/manifest_src.json (one entry per property)."""
import json, pathlib

import os as _os
_GEN = _os.path.join(_os.path.dirname(_os.path.dirname(_os.path.abspath(__file__))), "coq", "gen")


def technique(pid, e):
    """Every check is of the family 'machine-checked proof in Coq'; say so first, then the property-specific detail."""
    t = e.get("technique", "theorems on a hand-written executable Gallina model + correspondence check (model evaluated "
                           "by vm_compute inside Coq against the implementation's observed behaviour)")
    t = "machine-checked proof in Coq 8.16.1 (Rocq): " + t
    if _os.path.exists(_os.path.join(_GEN, pid + "_equiv.v")):
        t += ("; translation tie: the scalar / index-arithmetic functions are re-translated from the current source on every "
              "run (harness/pytrans.py) and proved equal to the model for all inputs (coq/gen/%s_equiv.v)" % pid)
    return t

V = pathlib.Path(__file__).resolve().parents[1]
src = json.loads((V / "tools" / "manifest_src.json").read_text())
src["properties"] = {f.stem: json.loads(f.read_text()) for f in sorted((V / "tools" / "manifest.d").glob("*.json"))}
props = [json.loads(l) for l in (V / "properties.jsonl").read_text().splitlines() if l.strip()]
checks, na = [], []
for p in props:
    pid = p["id"]
    e = src["properties"].get(pid)
    if e is None or e.get("not_applicable"):
        na.append({"property_id": pid, "reason": (e or {}).get("reason", "no check built yet for this property in this development; see DESIGN.md")})
        continue
    checks.append({
        "property_id": pid,
        "quick_cmd": f"./check {pid} --tier quick",
        "thorough_cmd": f"./check {pid} --tier thorough",
        "evidence_file": f"/verif/evidence/{pid}.json",
        "replay_cmd_template": f"./check {pid} --replay {{path}}",
        "engine": "coq-model+correspondence",
        "level_claimed": {"category": "proof", "text": e["text"], "design_ref": e.get("design_ref", f"DESIGN.md §8 {pid}")},
        "level_note": e["note"],
        "technique": technique(pid, e),
    })
m = {
    "version": 1,
    "setup_cmd": "./setup.sh",
    "hooks": src["hooks"],
    "engines": [{"name": "coq-model+correspondence", "path": "/verif/check", "serves_properties": [c["property_id"] for c in checks],
                 "kind_free_text": "Coq 8.16.1 development (coq/theories, coq/props) + Python correspondence harness (harness/)"}],
    "checks": checks,
    "notes": src.get("notes", ""),
    "not_applicable": na,
}
(V / "MANIFEST.json").write_text(json.dumps(m, indent=1) + "\n")
print(f"{len(checks)} checks, {len(na)} not claimed")
