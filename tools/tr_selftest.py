#!/venv/bin/python
"""Differential self-test of the Python -> Gallina translator (harness/pytrans.py), independent of any client.

Synthetic functions that exercise the subset (floor division / modulo with negative operands, chained comparisons,
short-circuit with failing operands, if-joins, while/break/continue, for-range, enumerate, append, list indexing /
item assignment / slices / slice assignment, recursion, conditional expressions, early returns with duplicated
continuations) are (a) executed by CPython on a grid of inputs and (b) translated, and the generated Gallina is
evaluated by vm_compute on the same inputs; the comparison happens inside Coq.  A Python exception must show as the
corresponding PyErr; inputs on which Python uses semantics the translator declares unmodelled (negative list index /
slice bound) must show as PyErr NegativeIndex.  Not part of any ./check; run by hand after touching the translator:

    PYTHONPATH=/verif/harness /venv/bin/python tools/tr_selftest.py
"""
from __future__ import annotations

import itertools
import sys
import tempfile
from pathlib import Path
from typing import List

sys.path.insert(0, str(Path(__file__).resolve().parents[1] / "harness"))
import pytrans  # noqa: E402
import vlib  # noqa: E402
from pytrans import Carrier, Client, FnSpec, Unit  # noqa: E402

SRC = '''
from typing import List


class K:
    def arith(self, a: int, b: int) -> int:
        q = a // b
        r = a % b
        return q * 7 + r - (a // 3) + (a % 5) + (-a) ** 2 - (a // -4) + (b % -3)

    def minmax(self, a: int, b: int, c: int) -> int:
        x = min(a, b)
        y = max(x, c)
        if a < b <= c:
            y += 1
        elif not (a == b) and (b > c or a >= c):
            y -= 1
        else:
            y = y * 2
        return y

    def collatz(self, n: int) -> int:
        steps = 0
        while n != 1:
            if steps >= 60:
                break
            steps += 1
            if n % 2 == 0:
                n = n // 2
                continue
            n = 3 * n + 1
        return steps

    def lists(self, xs: List[int], i: int, v: int) -> int:
        ys = []
        for j, x in enumerate(xs):
            if x < 0:
                continue
            ys.append(x * j)
        xs[i] = v
        s = 0
        for j in range(len(xs)):
            s += xs[j]
            if s > 100:
                break
        t = xs[1:i]
        return s + 10 * len(t) + 100 * len(ys) + (ys[0] if len(ys) > 0 else -1)

    def guarded(self, xs: List[int], i: int) -> bool:
        return i >= 0 and i < len(xs) and xs[i] > 0 or i == 7

    def chain(self, xs: List[int], i: int) -> int:
        if 0 <= i < len(xs) - 1 and xs[i] <= xs[i + 1] < 10:
            return 1
        return 0

    def fib(self, n: int) -> int:
        if n < 2:
            return n
        return self.fib(n - 1) + self.fib(n - 2)

    def slices(self, xs: List[int], a: int, b: int) -> List[int]:
        ys = xs[a:b]
        zs = xs[b:]
        xs[:len(zs)] = zs
        return ys

    def early(self, a: int, b: int) -> int:
        if a > b:
            if a > 2 * b:
                return 1
            a = a - b
        c = a + b
        if c % 2 == 0:
            return c
        c = c + 1
        return -c

    def last2(self, xs: List[int]) -> int:
        h, w = xs[-2:]
        return h * 10 + w

    def find(self, xs: List[int], v: int) -> int:
        k = 0
        for x in xs:
            if x == v:
                return k
            k += 1
        return -1

    def dotrev(self, xs: List[int], ys: List[int]) -> int:
        acc = 0
        for a, b in zip(xs, ys):
            acc = acc + a * b
        n = len(xs)
        last = first = 0
        for t in reversed(range(n)):
            last = first = xs[t] - first
        lo, hi = min(acc, last), max(acc, last)
        return hi * 1000 + lo + first

    def firstneg(self, xs: List[int]) -> int:
        i = 0
        while i < len(xs):
            if xs[i] < 0:
                return i
            i += 1
        raise ValueError("none")
'''

LZ = ("list", "Z")
SPECS = [
    FnSpec(cls="K", name="arith", coq="k_arith", returns="Z"),
    FnSpec(cls="K", name="minmax", coq="k_minmax", returns="Z"),
    FnSpec(cls="K", name="collatz", coq="k_collatz", returns="Z", fuel=True),
    FnSpec(cls="K", name="lists", coq="k_lists", returns="Z", params={"ys": LZ}),
    FnSpec(cls="K", name="guarded", coq="k_guarded", returns="bool"),
    FnSpec(cls="K", name="chain", coq="k_chain", returns="Z"),
    FnSpec(cls="K", name="fib", coq="k_fib", returns="Z", fuel=True),
    FnSpec(cls="K", name="slices", coq="k_slices", returns=LZ),
    FnSpec(cls="K", name="early", coq="k_early", returns="Z"),
    FnSpec(cls="K", name="last2", coq="k_last2", returns="Z"),
    FnSpec(cls="K", name="find", coq="k_find", returns="Z"),
    FnSpec(cls="K", name="dotrev", coq="k_dotrev", returns="Z"),
    FnSpec(cls="K", name="firstneg", coq="k_firstneg", returns="Z", fuel=True),
]

INTS = [-7, -3, -1, 0, 1, 2, 3, 5, 8]
LISTS = [[], [4], [3, -2], [1, 2, 3], [5, -1, 7, 2], [9, 9, 9, 9, 9, 60]]


def inputs(name):
    if name == "arith":
        return [(a, b) for a in INTS for b in INTS]
    if name == "minmax":
        return list(itertools.product([-2, 0, 1, 3], repeat=3))
    if name == "collatz":
        return [(n,) for n in [1, 2, 3, 6, 7, 27, 97]]
    if name == "lists":
        return [(list(l), i, v) for l in LISTS for i in range(-1, 7) for v in (-5, 11)]
    if name in ("guarded", "chain"):
        return [(list(l), i) for l in LISTS for i in range(-2, 8)]
    if name == "fib":
        return [(n,) for n in range(0, 11)]
    if name == "slices":
        return [(list(l), a, b) for l in LISTS for a in range(-1, 5) for b in range(-1, 7)]
    if name == "early":
        return [(a, b) for a in INTS for b in INTS]
    if name == "last2":
        return [(list(l),) for l in LISTS]
    if name == "find":
        return [(list(l), v) for l in LISTS for v in (-2, 2, 9, 60, 4)]
    if name == "dotrev":
        return [(list(a), list(b)) for a in LISTS for b in LISTS]
    if name == "firstneg":
        return [(list(l),) for l in LISTS]
    raise KeyError(name)


def cz(n):
    return f"({n})%Z" if n < 0 else f"{n}%Z"


def cval(v):
    if isinstance(v, bool):
        return "true" if v else "false"
    if isinstance(v, int):
        return cz(v)
    if isinstance(v, list):
        return "[" + "; ".join(cz(x) for x in v) + "]"
    raise TypeError(v)


def unmodelled(name, args):
    """inputs on which CPython uses a negative index / slice bound (wrap-around): not modelled"""
    if name == "lists":
        xs, i, _ = args
        return i < 0
    if name == "slices":
        _, a, b = args
        return a < 0 or b < 0
    return False


def main():
    ns = {}
    exec(compile(SRC, "<tr_selftest>", "exec"), ns)
    k = ns["K"]()
    with tempfile.TemporaryDirectory() as td:
        (Path(td) / "synthetic.py").write_text(SRC)
        client = Client(pid="TRSELF", imports="From Coq Require Import List ZArith Bool.\nImport ListNotations.\n"
                                              "From AgileV Require Import TR.PyLib.",
                        equiv="", units=[Unit(file="synthetic.py", section="Synth", context="",
                                              carrier=Carrier(T="unit"), functions=SPECS)])
        text, fns, fails = pytrans.translate_client(client, Path(td))
    if fails:
        print("TRANSLATION FAILED:", *fails, sep="\n  ")
        return 1
    d = vlib.BUILD / "TRSELF" / "gen"
    d.mkdir(parents=True, exist_ok=True)
    (d / "GenTRSELF.v").write_text(text)
    ok, log = vlib.coq_make(["theories/TR/PyLib.vo"])
    rc, out = vlib.coqc(d / "GenTRSELF.v", extra=["-Q", str(d), "AgileGen"])
    if rc != 0:
        print("generated code does not compile:\n" + out[-3000:])
        return 1
    pre = ("From Coq Require Import List ZArith Bool.\nImport ListNotations.\nFrom AgileV Require Import TR.PyLib.\n"
           "From AgileGen Require Import GenTRSELF.\n"
           "Fixpoint leqb (a b : list Z) : bool := match a, b with [], [] => true | x :: a', y :: b' => Z.eqb x y && leqb a' b' | _, _ => false end.\n")
    terms, meta = [], []
    errs = {"IndexError": "IndexError", "ZeroDivisionError": "ZeroDivisionError", "ValueError": "ValueError"}
    for spec in SPECS:
        eqb = {"Z": "Z.eqb", "bool": "Bool.eqb", LZ: "leqb"}[spec.returns]
        for args in inputs(spec.name):
            call = f"{spec.coq} " + ("200 " if spec.fuel else "") + " ".join("(" + cval(a) + ")" for a in args)
            if unmodelled(spec.name, args):
                want = "match r with PyErr NegativeIndex => true | PyErr IndexError => true | _ => false end"
                kind = "unmodelled"
            else:
                try:
                    v = getattr(k, spec.name)(*[list(a) if isinstance(a, list) else a for a in args])
                    want = f"match r with Ok v => {eqb} v ({cval(v)}) | _ => false end"
                    kind = "value"
                except Exception as ex:
                    en = errs.get(type(ex).__name__)
                    if en is None:
                        print("unexpected Python exception", spec.name, args, ex)
                        return 1
                    want = f"match r with PyErr {en} => true | _ => false end"
                    kind = en
            terms.append((len(terms), f"let r := {call} in {want}"))
            meta.append((spec.name, args, kind))
    # run_coq_cases compiles with the standard arguments; the generated module is found through -Q in COQ_ARGS
    vlib.COQ_ARGS += ["-Q", str(d), "AgileGen"]
    failing, errors = vlib.run_coq_cases("TRSELF", pre, terms, shard=400, tag="selftest")
    for e in errors:
        print("Coq error:", e["log"][-1500:])
    for i in failing:
        print("DISAGREE", meta[i])
    kinds = {}
    for _, _, kd in meta:
        kinds[kd] = kinds.get(kd, 0) + 1
    print(f"tr_selftest: {len(SPECS)} functions, {len(terms)} inputs {kinds}, {len(failing)} disagreements, {len(errors)} errors")
    return 1 if failing or errors else 0


if __name__ == "__main__":
    sys.exit(main())
