#!/usr/bin/env python3
"""Tally of the independently seeded changes under seeded/: per round, caught at the first run vs missed at first;
now caught with a concrete replay / by a proof obligation only / not caught (superseded)."""
import json, glob, collections, os
V = os.path.dirname(os.path.dirname(os.path.abspath(__file__)))
c = collections.Counter(); conc = 0; proofonly = []; notc = []; tot = 0
for f in sorted(glob.glob(os.path.join(V, "seeded", "*", "meta.json"))):
    m = json.load(open(f)); i = m["id"].split("-")[1]; tot += 1
    rnd = 1 if i[0].isdigit() else {"r": 2, "t": 3, "u": 4, "v": 5, "w": 6}[i[0]]
    first = m.get("first_outcome")
    missed = (first and not first["caught"]) or (not first and ("missed at first" in m["needs_to_manifest"] or not m["check_outcome"]["caught"]))
    c[(rnd, "missed" if missed else "caught")] += 1
    co = m["check_outcome"]
    if not co["caught"]:
        notc.append(m["id"])
    elif co["with_concrete_replay"]:
        conc += 1
    else:
        proofonly.append(m["id"])
for r in sorted({k[0] for k in c}):
    print(f"round {r}: caught at first run {c[(r, 'caught')]} / {c[(r, 'caught')] + c[(r, 'missed')]}")
print("total", tot, "| now caught with concrete replay", conc, "| by proof obligation only", len(proofonly), proofonly, "| not caught", notc)
