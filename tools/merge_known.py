#!/usr/bin/env python3
"""Merges known_findings.d/*.json into known_findings.json (the single committed known-findings file) and empties
the fragments. Run by the coordinator when a property's fragment is final."""
import json, pathlib
V = pathlib.Path(__file__).resolve().parents[1]
kf = json.loads((V / "known_findings.json").read_text())
findings = {json.dumps(x, sort_keys=True): x for x in kf.get("findings", [])}
fixed = list(kf.get("fixed", []))
for f in sorted((V / "known_findings.d").glob("*.json")):
    d = json.loads(f.read_text())
    for x in d.get("findings", []):
        findings[json.dumps(x, sort_keys=True)] = x
    for x in d.get("fixed", []) or []:
        if isinstance(x, dict):   # normalise to the one-line form
            x = "fixed: property=%s %s %s" % (x.get("property", "?"), x.get("commit") or x.get("sha") or x.get("fixed_by") or "",
                                              x.get("what") or x.get("signature") or json.dumps(x, sort_keys=True))
            x = x.replace("fixed: property=%s %s fixed: property=" % (x.split("property=")[1].split()[0], ""), "fixed: property=")
        if x not in fixed:
            fixed.append(x)
    f.unlink()
kf["findings"] = sorted(findings.values(), key=lambda x: (x["property"], x.get("signature") or x.get("signature_prefix")))
kf["fixed"] = fixed
(V / "known_findings.json").write_text(json.dumps(kf, indent=1) + "\n")
print(len(kf["findings"]), "findings;", len(fixed), "fixed")
