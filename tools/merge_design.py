#!/usr/bin/env python3
"""Rebuilds the generated tail of DESIGN.md (§11 per-property build/triage log from design.d/*.md,
§12 seeded-change table from seeded/*/meta.json). Everything above the marker line is hand-written."""
import json, pathlib, re
V = pathlib.Path(__file__).resolve().parents[1]
MARK = "<!-- GENERATED BELOW: tools/merge_design.py -->"
d = (V / "DESIGN.md").read_text()
head = d.split(MARK)[0].rstrip() + "\n\n" + MARK + "\n\n"
out = [head, "## 11. Per-property build and triage log (as built)\n\n",
       "One subsection per property, written by whoever built the check (`design.d/Cxx.md`): model, theorem list, "
       "correspondence generator and bounds, oracle clauses, what the check found on the tree, false alarms corrected in "
       "the machinery, deviations from §8, self-test mutants, measured cost.\n\n"]
for f in sorted(list((V / "design.d").glob("C*.md")) + list((V / "design.d").glob("TR.md"))):
    t = f.read_text().strip()
    t = re.sub(r"^(#{1,6}) ", lambda m: "#" * min(6, max(3, len(m.group(1)) + (0 if t.startswith("###") else 2))) + " ", t, flags=re.M) if not t.startswith("### ") else t
    if not t.lstrip().startswith("#"):
        t = f"### {f.stem}\n\n" + t
    out.append(t + "\n\n")
out.append("## 12. Independently seeded property-breaking changes (`seeded/`)\n\n"
           "Produced by sub-agents that saw only the property text and a scratch worktree (never /verif). Each was confirmed "
           "(`tools/seed_eval.sh`: demo passes on the clean tree and fails with the patch, the touched existing tests are "
           "unchanged) and then run against the check (`VERIF_REPO=<worktree> ./check Cxx --tier quick`).\n\n"
           "Rounds: `Cxx-1..3` round 1, `Cxx-r1..r3` round 2, `Cxx-t1..t3` round 3, `Cxx-u1..u2` round 4, `Cxx-v1..v2` round 5, `Cxx-w1` round 6. *first run* = outcome "
           "of the check as it stood when the change arrived; a miss was turned into a strengthening of the generator / "
           "oracle / model (column *strengthening*; for rounds 1-2 it is written into *needs to manifest*) and re-run "
           "(`tools/seed_reeval.sh`).\n\n"
           "| seed | property | needs to manifest | first run | caught now | concrete replay | strengthening / later status |\n|---|---|---|---|---|---|---|\n")
for f in sorted((V / "seeded").glob("*/meta.json")):
    m = json.loads(f.read_text())
    first = m.get('first_outcome')
    first_s = ('missed' if not first['caught'] else 'caught') if first else (
        'missed' if ('missed at first' in m['needs_to_manifest'] or not m['check_outcome']['caught']) else 'caught')
    note = (m.get('strengthening', '') + ' ' + str(m.get('later_status', '') or '')).strip().replace('|', '/')
    out.append(f"| {m['id']} | {m['breaks_property']} | {m['needs_to_manifest'].replace('|', '/')} | {first_s} | {'yes' if m['check_outcome']['caught'] else '**no**'} | "
               f"{'yes' if m['check_outcome']['with_concrete_replay'] else 'no'} | {note} |\n")
# ---- §13: last evidence per property
out.append("\n## 13. What the last committed quick run covered (from `evidence/*.json`)\n\n"
           "| property | theorems (obligations = discharged) | translated functions | cases | distinct non-trivial | compared in Coq | known findings hit | wall s |\n|---|---|---|---|---|---|---|---|\n")
for f in sorted((V / "evidence").glob("C*.json")):
    e = json.loads(f.read_text()); c = e["coverage"]
    out.append(f"| {e['property_id']} | {c.get('obligations')} = {c.get('discharged')} | {len(c.get('translated_functions', []) or [])} | {c.get('evaluations')} | "
               f"{c.get('distinct_nontrivial')} | {c.get('traces_validated_against_impl')} | {len(c.get('known_findings_hit', []))} | {e.get('wall_s')} |\n")
# ---- §14: known findings and repaired defects
kf = json.loads((V / "known_findings.json").read_text())
out.append("\n## 14. Known findings (recorded, not repaired) and repaired defects (`known_findings.json`)\n\n"
           "A finding is listed when the check shows a genuine violation with a concrete input and no small safe repair exists; "
           "the check prints `KNOWN-FINDING` for exactly these signatures and exits 0. A `fixed:` entry suppresses nothing.\n\n"
           "### Known findings\n\n| property | signature | what fails |\n|---|---|---|\n")
for x in kf.get("findings", []):
    sig = x.get("signature") or (x.get("signature_prefix", "") + "*")
    out.append(f"| {x['property']} | `{sig}` | {x['what'].replace('|', '/')[:400]} |\n")
out.append(f"\n### Repaired defects ({len(kf.get('fixed', []))} `fixed:` entries)\n\n")
for x in kf.get("fixed", []):
    out.append("* " + x.replace("|", "/")[:420] + "\n")
(V / "DESIGN.md").write_text("".join(out))
print("DESIGN.md rebuilt:", len("".join(out).splitlines()), "lines")
