#!/bin/bash
# usage: tools/seed_eval.sh <PID> <seed-dir containing patch.diff demo.py> "<pytest targets>" [tier]
# Confirms a seeded change (demo passes clean / fails patched, tests unchanged) and runs the check against it.
pid="$1"; sd="$(readlink -f "$2")"; tests="$3"; tier="${4:-quick}"
name="$(basename "$sd")"; wt="/tmp/se/$name-$$"; mkdir -p /tmp/se
out="$sd/eval.txt"; : > "$out"
git -C /repo worktree add -q --detach "$wt" HEAD || exit 2
run_demo(){ (cd "$wt" && PYTHONPATH="$wt" OMP_NUM_THREADS=2 timeout 600 /venv/bin/python "$sd/demo.py" "$wt" >/dev/null 2>&1; echo $?); }
run_tests(){ (cd "$wt" && PYTHONPATH="$wt" OMP_NUM_THREADS=2 timeout 3000 /venv/bin/python -m pytest -q -p no:cacheprovider $tests 2>&1 | tail -1); }
echo "head: $(git -C /repo rev-parse --short HEAD)" >> "$out"
echo "demo clean exit: $(run_demo)" >> "$out"
[ -n "$tests" ] && echo "tests clean: $(run_tests)" >> "$out"
if ! git -C "$wt" apply "$sd/patch.diff"; then echo "PATCH-DOES-NOT-APPLY" >> "$out"; git -C /repo worktree remove --force "$wt"; cat "$out"; exit 2; fi
echo "demo patched exit: $(run_demo)" >> "$out"
[ -n "$tests" ] && echo "tests patched: $(run_tests)" >> "$out"
cd /verif
echo "check: VERIF_REPO=<worktree with patch> ./check $pid --tier $tier" >> "$out"
VERIF_REPO="$wt" ./check "$pid" --tier "$tier" 2>&1 | grep -E "^VIOLATION|^KNOWN-FINDING|^\[$pid\]" | sed "s|$wt|<wt>|g" >> "$out"
git -C /repo worktree remove --force "$wt"
cat "$out"
