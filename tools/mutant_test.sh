#!/bin/bash
# usage: tools/mutant_test.sh Cxx patchfile [tier]   — applies the patch to a scratch worktree of /repo, runs the check on it, cleans up.
pid="$1"; patch="$(readlink -f "$2")"; tier="${3:-quick}"
wt="/tmp/mt/$pid-$$"
mkdir -p /tmp/mt
git -C /repo worktree add -q --detach "$wt" HEAD || exit 2
if ! git -C "$wt" apply "$patch"; then echo "PATCH-DOES-NOT-APPLY $patch"; git -C /repo worktree remove --force "$wt"; exit 2; fi
cd /verif
VERIF_REPO="$wt" ./check "$pid" --tier "$tier" 2>&1 | grep -E "^VIOLATION|^KNOWN-FINDING|^\[$pid\]" | sed "s|^|[$(basename "$patch")] |"
rc=${PIPESTATUS[0]}
git -C /repo worktree remove --force "$wt"
exit $rc
