import sys, gzip, os, xml.etree.ElementTree as ET
BASE = os.path.join(os.path.dirname(os.path.abspath(__file__)), 'baseline_junit.xml.gz')
def load(p):
    r={}
    root = ET.parse(gzip.open(p) if p.endswith('.gz') else p).getroot()
    for tc in root.iter('testcase'):
        k=tc.get('classname')+'::'+tc.get('name')
        st='pass'
        for ch in tc:
            if ch.tag in('failure','error'): st='fail'
            if ch.tag=='skipped': st='skip'
        r[k]=st
    return r
b=load(sys.argv[2] if len(sys.argv)>2 else BASE); n=load(sys.argv[1])
reg=[k for k,v in n.items() if b.get(k)=='pass' and v!='pass']
imp=[k for k,v in n.items() if b.get(k)=='fail' and v=='pass']
print("ran",len(n),"regressions",len(reg),"newly passing",len(imp))
for k in reg[:15]: print("  REG",k)
