#!/bin/bash
# Build the whole Coq development (full .vo build, no quick modes), offline.
set -e
cd "$(dirname "$0")"
mkdir -p build evidence replays
export PYTHONPATH="/verif/harness"
/venv/bin/python - <<'PY'
import vlib, sys
ok, log = vlib.coq_make()
print(log[-3000:])
sys.exit(0 if ok else 1)
PY
