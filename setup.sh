#!/bin/bash
# Build the whole Coq development (full .vo build, no quick modes), offline. A proof that does not
# compile does not fail the setup: it is reported by the check of the property it belongs to.
cd "$(dirname "$0")"
mkdir -p build evidence replays
export PYTHONPATH="$(pwd)/harness"
/venv/bin/python - <<'PY'
import vlib, sys
ok, log = vlib.coq_make()
print(log[-3000:])
base_ok, _ = vlib.coq_make(["theories/Base/Prelude.vo"])
if not ok:
    print("setup: some Coq files did not compile (reported by the checks that depend on them)")
sys.exit(0 if base_ok else 1)
PY
